#!/bin/bash
# run_all.sh [quick|thorough] — run every registered check once (sequentially; each check uses all cores), print a
# one-line summary per check. Exit 1 if any check reported a VIOLATION, 2 on a harness error.
HERE="$(cd "$(dirname "${BASH_SOURCE[0]}")" && pwd)"
TIER=${1:-quick}
rc=0
for i in $(seq -w 1 20); do
  s=$(date +%s)
  out=$("$HERE/check" C$i --tier $TIER 2>&1); r=$?
  e=$(date +%s)
  echo "[$((e-s))s rc=$r] $(echo "$out" | grep -E "^C[0-9]+ tier" | tail -1)"
  echo "$out" | grep -E "^VIOLATION|^KNOWN-FINDING|HARNESS ERROR" | cut -c1-200
  [ $r -gt $rc ] && rc=$r
done
exit $rc
