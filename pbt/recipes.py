"""Module recipes for C01 / C04: one per public pyMOTO module family (DESIGN §3 C01).

Each recipe has  opts(tier) -> Hypothesis strategy of a JSON dict  and  build(opts, rng) -> adjoint.Built.
Structure comes from opts (drawn by Hypothesis, shrinks); bulk numbers from rng = default_rng(payload_seed).
"""
import numpy as np
import scipy.sparse as sps
from hypothesis import strategies as st
from pbt.adjoint import Built
from pbt.common import (domain_strategy, make_domain, make_matrix, class_direction, rand_unit, MATRIX_KINDS,
                        COMPLEX_ONLY, HERMITIAN_KINDS)

RECIPES = {}


def recipe(name):
    def deco(cls):
        RECIPES[name] = cls
        cls.name = name
        return cls
    return deco


def rnd(rng, shape, cplx=False, lo=None, hi=None):
    if lo is not None:
        x = rng.uniform(lo, hi, shape)
        if cplx:
            x = x * np.exp(1j * rng.uniform(0, 2 * np.pi, shape))
        return x
    return rand_unit(rng, shape, cplx)


def like(rng, a, cplx=None):
    """Random array/scalar with the shape and dtype class of a."""
    c = np.iscomplexobj(a) if cplx is None else cplx
    if isinstance(a, np.ndarray):
        return rnd(rng, a.shape, c)
    v = rng.standard_normal()
    return complex(v, rng.standard_normal()) if c else float(v)


def default_seeds(mask=None):
    def f(rng, ys):
        out = []
        for j, y in enumerate(ys):
            if mask is not None and not mask[j % len(mask)]:
                out.append(None)
            elif sps.issparse(y):
                out.append(rnd(rng, y.shape, np.iscomplexobj(y)))
            else:
                out.append(like(rng, np.asarray(y) if not isinstance(y, np.ndarray) else y))
        return out
    return f


def sig(state, tag=""):
    import pymoto as pym
    return pym.Signal(tag, state)


def bc_strategy():
    return st.sampled_from(["none", "left", "one", "some", "most"])


def bc_dofs(kind, dom, ndof, rng):
    n = dom.nnodes * ndof
    if kind == "none":
        return None
    if kind == "left":
        nodes = np.asarray(dom.nodes[0]).flatten()
        return np.sort(np.concatenate([nodes * ndof + d for d in range(ndof)]))
    if kind == "one":
        return np.array([int(rng.integers(0, n))])
    if kind == "some":
        k = max(1, n // 4)
    else:
        k = max(1, n - max(1, ndof))
    return np.sort(rng.choice(n, size=min(k, n - 1) if n > 1 else 1, replace=False))


# =====================================================================================================================
@recipe("assemble")
class Assemble:
    @staticmethod
    def opts(tier):
        return st.fixed_dictionaries({
            "dom": domain_strategy(tier, max2=5, max3=3),
            "kind": st.sampled_from(["general", "general", "stiffness", "mass", "poisson"]),
            "int_input": st.sampled_from([False, False, False, True]),   # integer-typed input state (np.int64)
            "ndof": st.integers(1, 3), "cplx_el": st.booleans(),
            "plane": st.sampled_from(["strain", "stress"]),
            "bc": bc_strategy(), "bcdiag": st.sampled_from([None, 0.0, 1.0, 2.5]),
            "const": st.sampled_from([None, None, "eye", "rand"]),
            "fmt": st.sampled_from(["csc", "csr"]),
            "seed": st.sampled_from(["dense", "dyad", "dyad_c", "dyad_multi"]),
        })

    @staticmethod
    def build(o, rng):
        import pymoto as pym
        dom = make_domain(o["dom"])
        kind = o["kind"]
        mt = sps.csc_matrix if o["fmt"] == "csc" else sps.csr_matrix
        if kind == "general":
            ndof = o["ndof"]
        elif kind == "stiffness":
            ndof = dom.dim
        elif kind == "mass":
            ndof = o["ndof"]
        else:
            ndof = 1
        n = dom.nnodes * ndof
        bc = bc_dofs(o["bc"], dom, ndof, rng)
        kw = {"matrix_type": mt}
        if bc is not None:
            kw["bc"] = bc
        if o["bcdiag"] is not None:
            kw["bcdiagval"] = o["bcdiag"]
        cplx = False
        if o["const"] == "eye":
            kw["add_constant"] = mt(sps.identity(n) * 0.37)
        elif o["const"] == "rand":
            kw["add_constant"] = mt(sps.random(n, n, density=min(1.0, 3.0 / n), random_state=np.random.RandomState(
                int(rng.integers(0, 2 ** 31))), format="csc"))
        x = sig(rng.uniform(0.1, 1.0, dom.nel), "x")
        if o.get("int_input"):
            x = sig(rng.integers(1, 4, dom.nel).astype(np.int64), "x")
        if kind == "general":
            m = dom.elemnodes * ndof
            cplx = o["cplx_el"]
            el = rnd(rng, (m, m), cplx)
            mod = pym.AssembleGeneral(x, sig(None, "A"), dom, el, **kw)
        elif kind == "stiffness":
            mod = pym.AssembleStiffness(x, sig(None, "K"), dom, e_modulus=float(rng.uniform(0.5, 3)),
                                        poisson_ratio=float(rng.uniform(0.0, 0.45)), plane=o["plane"], **kw)
        elif kind == "mass":
            mod = pym.AssembleMass(x, sig(None, "M"), dom, material_property=float(rng.uniform(0.5, 3)), ndof=ndof,
                                   **kw)
        else:
            mod = pym.AssemblePoisson(x, sig(None, "P"), dom, material_property=float(rng.uniform(0.5, 3)), **kw)

        def seeds(r, ys):
            if o["seed"] == "dense":
                return [rnd(r, (n, n), cplx)]
            c = o["seed"] == "dyad_c" or cplx
            k = 3 if o["seed"] == "dyad_multi" else 1
            return [pym.DyadCarrier([rnd(r, (n,), c) for _ in range(k)], [rnd(r, (n,), c) for _ in range(k)])]
        lab = [f"assemble:{kind}", f"dim{dom.dim}", f"bc:{o['bc']}", f"seed:{o['seed']}", f"fmt:{o['fmt']}"]
        if o.get("int_input"):
            lab.append("int_input")
        if o["const"]:
            lab.append("add_constant")
        return Built(mod, mod.sig_in, mod.sig_out, [rnd(rng, (dom.nel,))], seeds, linear=True, labels=lab, tol=1e-10)


# =====================================================================================================================
@recipe("elemop")
class ElemOp:
    @staticmethod
    def opts(tier):
        return st.fixed_dictionaries({
            "dom": domain_strategy(tier, max2=5, max3=3),
            "kind": st.sampled_from(["general", "general", "strain", "strain_novoigt", "stress", "average"]),
            "cplx_input": st.sampled_from([False, False, True]),   # complex nodal vector (harmonic response)
            "int_input": st.sampled_from([False, False, False, True]),   # integer-typed input state (np.int64)
            "ndof": st.integers(1, 3), "shape": st.sampled_from(["m", "pm", "pqm", "node", "pnode"]),
            "plane": st.sampled_from(["strain", "stress"]),
        })

    @staticmethod
    def build(o, rng):
        import pymoto as pym
        dom = make_domain(o["dom"])
        kind, ndof = o["kind"], o["ndof"]
        lab = [f"elemop:{kind}", f"dim{dom.dim}"]
        if kind == "general":
            m = dom.elemnodes * ndof
            shp = {"m": (m,), "pm": (2, m), "pqm": (2, 3, m), "node": (dom.elemnodes,),
                   "pnode": (2, dom.elemnodes)}[o["shape"]]
            lab.append(f"opshape:{o['shape']}")
            u = sig(rnd(rng, (dom.nnodes * ndof,)), "u")
            mod = pym.ElementOperation(u, sig(None, "y"), dom, rnd(rng, shp))
        elif kind in ("strain", "strain_novoigt"):
            u = sig(rnd(rng, (dom.nnodes * dom.dim,)), "u")
            mod = pym.Strain(u, sig(None, "e"), dom, voigt=(kind == "strain"))
        elif kind == "stress":
            u = sig(rnd(rng, (dom.nnodes * dom.dim,)), "u")
            mod = pym.Stress(u, sig(None, "s"), dom, e_modulus=float(rng.uniform(0.5, 3)),
                             poisson_ratio=float(rng.uniform(0, 0.45)), plane=o["plane"])
        else:
            u = sig(rnd(rng, (dom.nnodes * ndof,)), "v")
            mod = pym.ElementAverage(u, sig(None, "ve"), dom)
        if o.get("cplx_input") and not o.get("int_input"):
            u.state = rnd(rng, np.shape(u.state), True)
            lab.append("cplx_input")
        vdir = like(rng, u.state)
        if o.get("int_input"):
            u.state = rng.integers(-3, 4, np.shape(u.state)).astype(np.int64)
            lab.append("int_input")
        return Built(mod, mod.sig_in, mod.sig_out, [vdir], default_seeds(), linear=True, labels=lab,
                     tol=1e-10)


@recipe("nodalop")
class NodalOp:
    @staticmethod
    def opts(tier):
        return st.fixed_dictionaries({
            "dom": domain_strategy(tier, max2=5, max3=3),
            "kind": st.sampled_from(["general", "thermo"]), "ndof": st.integers(1, 3),
            "shape": st.sampled_from(["m", "pm"]), "plane": st.sampled_from(["strain", "stress"]),
            "cplx": st.sampled_from(["none", "none", "input", "operator"]),   # complex element data or operator
        })

    @staticmethod
    def build(o, rng):
        import pymoto as pym
        dom = make_domain(o["dom"])
        lab = [f"nodalop:{o['kind']}", f"dim{dom.dim}"]
        if o["kind"] == "general":
            m = dom.elemnodes * o["ndof"]
            if o["shape"] == "m":
                em, xs = rnd(rng, (m,)), (dom.nel,)
            else:
                em, xs = rnd(rng, (2, m)), (2, dom.nel)
            lab.append(f"opshape:{o['shape']}")
            x = sig(rnd(rng, xs, o.get("cplx") == "input"), "x")
            if o.get("cplx") == "operator":
                em = em + 1j * rnd(rng, em.shape)
            if o.get("cplx", "none") != "none":
                lab.append("cplx_" + o["cplx"])
            mod = pym.NodalOperation(x, sig(None, "u"), dom, em)
        else:
            x = sig(rnd(rng, (dom.nel,), o.get("cplx") == "input"), "x")
            if o.get("cplx") == "input":
                lab.append("cplx_input")
            mod = pym.ThermoMechanical(x, sig(None, "f"), dom, e_modulus=float(rng.uniform(0.5, 3)),
                                       poisson_ratio=float(rng.uniform(0, 0.45)), alpha=float(rng.uniform(0.1, 2)),
                                       plane=o["plane"])
        return Built(mod, mod.sig_in, mod.sig_out, [like(rng, x.state)], default_seeds(), linear=True, labels=lab,
                     tol=1e-10)


# =====================================================================================================================
PADS = ["symmetric", "edge", "wrap", 0.0, 1.0, 0.3]


@recipe("filterconv")
class FilterConvR:
    @staticmethod
    def opts(tier):
        pad = st.sampled_from(PADS)
        return st.fixed_dictionaries({
            "dom": domain_strategy(tier, max2=7, max3=4),
            "kernel": st.sampled_from(["radius_rel", "radius_abs", "weights", "weights_asym"]),
            "radius": st.floats(0.6, 3.5).map(lambda r: round(r, 2)),
            "kw": st.lists(st.sampled_from([1, 3, 5]), min_size=3, max_size=3),
            "pads": st.lists(pad, min_size=6, max_size=6),
            "override": st.booleans(),
        })

    @staticmethod
    def build(o, rng):
        import pymoto as pym
        dom = make_domain(o["dom"])
        sizes = [dom.nelx, dom.nely, max(dom.nelz, 1)]
        names = ["xmin_bc", "xmax_bc", "ymin_bc", "ymax_bc", "zmin_bc", "zmax_bc"]
        kw = dict(zip(names, o["pads"]))
        lab = [f"filterconv:{o['kernel']}", f"dim{dom.dim}"]
        if o["kernel"].startswith("radius"):
            kw["radius"] = o["radius"]
            kw["relative_units"] = o["kernel"] == "radius_rel"
        else:
            shp = [min(k, 2 * s + 1 if s % 2 == 0 else 2 * s - 1) for k, s in zip(o["kw"], sizes)]
            shp = [k if k % 2 == 1 else k - 1 for k in shp]
            if dom.dim == 2:
                shp = shp[:2]
            w = rng.uniform(0.0, 1.0, shp)
            if o["kernel"] == "weights":
                for ax in range(len(shp)):
                    w = 0.5 * (w + np.flip(w, axis=ax))
            else:
                w = w - 0.3
            kw["weights"] = w
        # wrap needs pad <= size (np.pad wrap handles larger, but keep kernels within the padded domain)
        x = sig(rng.uniform(0, 1, dom.nel), "x")
        mod = pym.FilterConv(x, sig(None, "y"), dom, **kw)
        if o["override"]:
            mask = rng.random(tuple(sizes)) < 0.2
            if mask.any():
                mod.override_values(np.nonzero(mask), 1.0)
                lab.append("override")
        if any(isinstance(p, float) for p in o["pads"][:2 * dom.dim]):
            lab.append("const_pad")
        if "wrap" in o["pads"][:2 * dom.dim]:
            lab.append("wrap_pad")
        return Built(mod, mod.sig_in, mod.sig_out, [rnd(rng, (dom.nel,))], default_seeds(), linear=True, labels=lab,
                     tol=1e-10)


@recipe("densityfilter")
class DensityFilterR:
    @staticmethod
    def opts(tier):
        return st.fixed_dictionaries({
            "dom": domain_strategy(tier, max2=7, max3=4),
            "radius": st.floats(0.5, 4.0).map(lambda r: round(r, 2)),
            "nonpadding": st.sampled_from([None, "left", "random"]),
        })

    @staticmethod
    def build(o, rng):
        import pymoto as pym
        dom = make_domain(o["dom"])
        kw = {"radius": o["radius"]}
        lab = ["densityfilter", f"dim{dom.dim}"]
        if o["nonpadding"] == "left":
            kw["nonpadding"] = np.asarray(dom.elements[0]).flatten()
        elif o["nonpadding"] == "random":
            kw["nonpadding"] = np.nonzero(rng.random(dom.nel) < 0.4)[0]
        if o["nonpadding"]:
            lab.append("nonpadding")
        x = sig(rng.uniform(0, 1, dom.nel), "x")
        mod = pym.DensityFilter(x, sig(None, "y"), dom, **kw)
        return Built(mod, mod.sig_in, mod.sig_out, [rnd(rng, (dom.nel,))], default_seeds(), linear=True, labels=lab,
                     tol=1e-10)


DIRS2 = [[1, 0], [-1, 0], [0, 1], [0, -1]]
DIRS3 = [[1, 0, 0], [-1, 0, 0], [0, 1, 0], [0, -1, 0], [0, 0, 1], [0, 0, -1]]


@recipe("overhang")
class OverhangR:
    @staticmethod
    def opts(tier):
        return st.fixed_dictionaries({
            "dom": domain_strategy(tier, max2=6, max3=4),
            "dir": st.integers(0, 5), "dirform": st.sampled_from(["vec", "vec3", "vecscaled", "str"]),
            "nsamp9": st.booleans(),
            "xi0": st.floats(0.1, 0.9).map(lambda r: round(r, 3)),
            "p": st.floats(5.0, 60.0).map(lambda r: round(r, 2)),
            "eps": st.sampled_from([1e-2, 1e-3, 1e-4, 1e-5]),
            "field": st.sampled_from(["uniform", "blocks", "mid"]),
        })

    @staticmethod
    def build(o, rng):
        import pymoto as pym
        dom = make_domain(o["dom"])
        d = (DIRS2[o["dir"] % 4] + [0]) if dom.dim == 2 else DIRS3[o["dir"] % 6]
        ns = 3 if dom.dim == 2 else (9 if o["nsamp9"] else 5)
        p, xi0 = o["p"], o["xi0"]
        # Q = P + ln(ns)/ln(xi0) >= 1 required (Langelaar 2017); raise p if needed (deterministic in opts)
        while p + np.log(ns) / np.log(xi0) < 1.5:
            p += 5.0
        form = o["dirform"]
        if form == "vec":
            direction = d[:dom.dim]
        elif form == "vec3":
            direction = d
        elif form == "vecscaled":
            direction = [2.5 * c for c in d]
        else:
            ax = int(np.argmax(np.abs(d)))
            direction = "xyz"[ax] + ("+" if d[ax] > 0 else "-")
            if rng.random() < 0.5:
                direction = direction[::-1]
        if o["field"] == "uniform":
            x0 = rng.uniform(0.05, 0.95, dom.nel)
        elif o["field"] == "mid":
            x0 = rng.uniform(0.3, 0.7, dom.nel)
        else:
            x0 = np.clip(np.round(rng.uniform(0, 1, dom.nel)) * 0.9 + 0.05 + 0.02 * rng.standard_normal(dom.nel), 0.01, 0.99)
        x = sig(x0, "x")
        mod = pym.OverhangFilter(x, sig(None, "y"), dom, direction=direction, xi_0=xi0, p=p, eps=o["eps"],
                                 nsampling=ns)
        size = [dom.nelx, dom.nely, max(dom.nelz, 1)]
        nlayers = size[int(np.argmax(np.abs(d)))]
        lab = ["overhang", f"dim{dom.dim}", f"ns{ns}", f"dir:{form}", "onelayer" if nlayers == 1 else "multilayer"]
        return Built(mod, mod.sig_in, mod.sig_out, [rnd(rng, (dom.nel,))], default_seeds(), linear=False, h=2e-3,
                     labels=lab, tol=1e-6)


# =====================================================================================================================
# MathGeneral: expression trees over variables; every variable appears at least once.
REAL_UN = ["sin({})", "cos({})", "exp({}*0.5)", "log({}**2+1)", "sqrt({}**2+1)", "tanh({})", "({})**2", "({})**3",
           "-({})"]
CPLX_UN = ["sin({})", "cos({})", "exp({}*0.5)", "({})**2", "-({})"]
BIN = ["({})+({})", "({})-({})", "({})*({})", "({})/(({})**2+1.5)"]
CBIN = ["({})+({})", "({})-({})", "({})*({})"]


@recipe("mathgeneral")
class MathGeneralR:
    @staticmethod
    def opts(tier):
        shape = st.sampled_from(["py", "np0", "arr0d", "n", "mn", "1n", "m1", "n_lead"])

        @st.composite
        def o(draw):
            nvar = draw(st.integers(1, 3))
            cplx = draw(st.booleans())
            shapes = [draw(shape) for _ in range(nvar)]
            vcplx = [cplx and draw(st.booleans()) for _ in range(nvar)]
            named = [draw(st.booleans()) for _ in range(nvar)]
            # random tree: leaves = each var once + extras
            leaves = list(range(nvar)) + draw(st.lists(st.integers(0, nvar - 1), max_size=2))
            leaves = draw(st.permutations(leaves))
            un = len(CPLX_UN if cplx else REAL_UN)
            bn = len(CBIN if cplx else BIN)
            ops = [[draw(st.integers(-1, un - 1)), draw(st.integers(0, bn - 1))] for _ in leaves]
            return {"nvar": nvar, "cplx": cplx, "shapes": shapes, "vcplx": vcplx, "named": named,
                    "leaves": list(leaves), "ops": ops}
        return o()

    @staticmethod
    def expression(o, names):
        UN, BN = (CPLX_UN, CBIN) if o["cplx"] else (REAL_UN, BIN)
        terms = []
        for leaf, (u, _) in zip(o["leaves"], o["ops"]):
            t = names[leaf]
            if u >= 0:
                t = UN[u].format(t)
            terms.append(t)
        e = terms[0]
        for t, (_, b) in zip(terms[1:], o["ops"][1:]):
            e = BN[b].format(e, t)
        return e

    @staticmethod
    def build(o, rng):
        import pymoto as pym
        m, n = 2, 3
        tags = ["xa", "rho", "yb"]
        sigs, names, dirs = [], [], []
        for i in range(o["nvar"]):
            c = o["vcplx"][i]
            shp = o["shapes"][i]
            shape = {"py": (), "np0": (), "arr0d": (), "n": (n,), "mn": (m, n), "1n": (1, n), "m1": (m, 1),
                     "n_lead": (n,)}[shp]
            val = rng.uniform(0.5, 1.5, shape)
            if c:
                val = val * np.exp(1j * rng.uniform(-1.0, 1.0, shape))
            if shp == "py":
                val = complex(val) if c else float(val)
            elif shp == "np0":
                val = val[()]
                val = np.complex128(val) if c else np.float64(val)
            sigs.append(sig(val, tags[i] if o["named"][i] else ""))
            names.append(tags[i] if o["named"][i] else f"inp{i}")
            dirs.append(like(rng, np.asarray(val), c) if shape else
                        (complex(rng.standard_normal(), rng.standard_normal()) if c else float(rng.standard_normal())))
        expr = MathGeneralR.expression(o, names)
        mod = pym.MathGeneral(sigs, sig(None, "out"), expr)
        lab = ["mathgeneral", "complex" if o["cplx"] else "real"] + [f"mg:{s}" for s in set(o["shapes"])]
        bshapes = {s for s in o["shapes"]}
        if len({"mn", "1n", "m1", "n", "n_lead"} & bshapes) >= 2 or ({"py", "np0", "arr0d"} & bshapes and
                                                                      {"mn", "1n", "m1", "n"} & bshapes):
            lab.append("broadcast")
        b = Built(mod, mod.sig_in, mod.sig_out, dirs, default_seeds(), linear=False, h=1e-2, labels=lab, tol=1e-6)
        b.expr = expr
        # an expression in which a variable cancels symbolically (e.g. "sin(x)-sin(x)") does not "match the provided
        # inputs": its output has not the broadcast shape of the inputs. Not admissible, skipped.
        try:
            out = mod.f(*[s.state for s in sigs])[0]
            b.skip = np.shape(out) != np.broadcast_shapes(*[np.shape(s.state) for s in sigs])
        except Exception:
            b.skip = False
        return b


# =====================================================================================================================
EINSUMS = [("i->", "a"), ("ij->", "ab"), ("i,i->i", "a;a"), ("i,i->", "a;a"), ("i,j->ij", "a;b"), ("ii->", "aa"),
           ("ij,j->i", "ab;b"), ("i,ij,j->", "a;ab;b"), ("ij,ij->ij", "ab;ab"), ("ji,ij->ij", "ba;ab"),
           ("ji,jk,kl->il", "ba;bc;cd"), ("ij,jk->ik", "ab;bc"), ("ijk,k->ij", "abc;c"), ("ij->ji", "ab"),
           ("ij,ij->", "ab;ab"), ("ijk,ikl->ijl", "abc;acd"), ("i,j,k->ijk", "a;b;c"), ("ij,kj->ik", "ab;cb"),
           # reductions over an index that occurs in one operand only (no repeated indices: documented as supported)
           ("ij->j", "ab"), ("ij->i", "ab"), ("i,j->", "a;b"), ("ij,j->", "ab;b"), ("ij,k->k", "ab;c"),
           ("ijk->j", "abc")]
DIMS = {"a": 2, "b": 3, "c": 4, "d": 2}
# expressions in which ONE signal is connected to two operand slots (quadratic forms, projections, squared norms, as in
# the EinSum docstring and examples/): (expression, operand shapes, the two slots that share a signal)
ALIAS_EINSUMS = [("i,ij,j->", "a;aa;a", (0, 2)), ("ji,jk,kl->il", "ab;aa;ab", (0, 2)), ("i,i->", "a;a", (0, 1)),
                 ("ij,ij->", "ab;ab", (0, 1)), ("ij,ik,kj->j", "ab;aa;ab", (0, 2)), ("i,i->i", "b;b", (0, 1))]


@recipe("einsum")
class EinSumR:
    @staticmethod
    def opts(tier):
        return st.fixed_dictionaries({"e": st.integers(0, len(EINSUMS) - 1),
                                      "cplx": st.lists(st.booleans(), min_size=3, max_size=3),
                                      "alias": st.one_of(st.none(), st.none(), st.none(),
                                                         st.integers(0, len(ALIAS_EINSUMS) - 1))})

    @staticmethod
    def build(o, rng):
        import pymoto as pym
        expr, shp = EINSUMS[o["e"]]
        pair = None
        if o.get("alias") is not None:
            expr, shp, pair = ALIAS_EINSUMS[o["alias"]]
        sigs, dirs = [], []
        for i, s in enumerate(shp.split(";")):
            if pair is not None and i == pair[1]:
                sigs.append(sigs[pair[0]])        # the same Signal object in a second operand slot
                continue
            c = o["cplx"][i]
            sigs.append(sig(rnd(rng, tuple(DIMS[ch] for ch in s), c), f"in{i}"))
            dirs.append(rnd(rng, tuple(DIMS[ch] for ch in s), c))
        mod = pym.EinSum(sigs, sig(None, "out"), expr)
        lab = ["einsum", f"einsum:{expr}", "complex" if any(o["cplx"][:len(sigs)]) else "real"]
        if pair is None and o["e"] >= 18:
            lab.append("einsum:reduction")
        if pair is not None:
            lab.append("einsum:signal_in_two_slots")
            uniq = [sg for k, sg in enumerate(sigs) if k != pair[1]]      # probe per distinct signal
            return Built(mod, uniq, mod.sig_out, dirs, default_seeds(), linear=False, h=0.25, labels=lab, tol=1e-8)
        # multilinear: linear in each argument, so probe one argument at a time with exact differences
        b = Built(mod, mod.sig_in, mod.sig_out, dirs, default_seeds(), linear=False, h=0.25, labels=lab, tol=1e-8)
        return b


@recipe("concat")
class ConcatR:
    @staticmethod
    def opts(tier):
        kind = st.sampled_from(["py", "np0", "arr0d", "n1", "n", "n5", "ni"])
        return st.fixed_dictionaries({"kinds": st.lists(kind, min_size=1, max_size=4)})

    @staticmethod
    def build(o, rng):
        import pymoto as pym
        sigs, dirs = [], []
        for i, k in enumerate(o["kinds"]):
            if k == "py":
                v, d = float(rng.standard_normal()), float(rng.standard_normal())
            elif k == "np0":
                v, d = np.float64(rng.standard_normal()), float(rng.standard_normal())
            elif k == "arr0d":
                v, d = np.array(rng.standard_normal()), np.array(rng.standard_normal())
            elif k == "ni":
                v, d = rng.integers(-3, 4, 3).astype(np.int64), rng.standard_normal(3)
            else:
                nn = {"n1": 1, "n": 3, "n5": 5}[k]
                v, d = rng.standard_normal(nn), rng.standard_normal(nn)
            sigs.append(sig(v, f"c{i}"))
            dirs.append(d)
        mod = pym.ConcatSignal(sigs, sig(None, "cat"))
        lab = ["concat"] + [f"concat:{k}" for k in set(o["kinds"])]
        return Built(mod, mod.sig_in, mod.sig_out, dirs, default_seeds(), linear=True, labels=lab, tol=1e-12)


@recipe("complexmods")
class ComplexR:
    @staticmethod
    def opts(tier):
        return st.fixed_dictionaries({"mod": st.sampled_from(["make", "real", "imag", "norm"]),
                                      "shape": st.sampled_from(["py", "n", "mn"]), "cplx_in": st.booleans()})

    @staticmethod
    def build(o, rng):
        import pymoto as pym
        shape = {"py": (), "n": (4,), "mn": (2, 3)}[o["shape"]]

        def val(c):
            v = rnd(rng, shape, c, 0.5, 2.0) * (1 if c else np.where(rng.random(shape) < 0.5, -1, 1))
            if o["shape"] == "py":
                return complex(v) if c else float(v)
            return v
        name = o["mod"]
        lab = [f"complex:{name}", f"shape:{o['shape']}"]
        if name == "make":
            a, b_ = sig(val(False), "x"), sig(val(False), "y")
            mod = pym.MakeComplex([a, b_], sig(None, "z"))
            dirs = [like(rng, np.asarray(a.state), False), like(rng, np.asarray(b_.state), False)]
            if o["shape"] == "py":
                dirs = [float(d) for d in dirs]
        else:
            c = True if name == "norm" else o["cplx_in"]
            if name == "norm" and not o["cplx_in"]:
                c = False
            z = sig(val(c), "z")
            cls = {"real": pym.RealPart, "imag": pym.ImagPart, "norm": pym.ComplexNorm}[name]
            mod = cls(z, sig(None, "o"))
            d = like(rng, np.asarray(z.state), c)
            if o["shape"] == "py":
                d = complex(d) if c else float(d)
            dirs = [d]
            lab.append("cplx_in" if c else "real_in")
        lin = name != "norm"
        return Built(mod, mod.sig_in, mod.sig_out, dirs, default_seeds(), linear=lin, h=1e-2, labels=lab,
                     tol=1e-10 if lin else 1e-6)


# =====================================================================================================================
def pattern_mask(rng, n, density):
    m = rng.random((n, n)) < density
    np.fill_diagonal(m, True)
    return m


@recipe("inverse")
class InverseR:
    @staticmethod
    def opts(tier):
        return st.fixed_dictionaries({"kind": st.sampled_from(MATRIX_KINDS), "n": st.integers(1, 7),
                                      "cplx": st.booleans(), "forder": st.booleans()})

    @staticmethod
    def build(o, rng):
        import pymoto as pym
        kind, n = o["kind"], o["n"]
        A = make_matrix(kind, n, rng, o["cplx"], 50.0)
        if o.get("forder"):
            A = np.asfortranarray(A)      # column-major storage (e.g. a transposed view, loaded data)
        a = sig(A, "A")
        mod = pym.Inverse(a, sig(None, "B"))
        # Inverse has no class memory: any direction of the right dtype class is admissible
        v = rnd(rng, (n, n), np.iscomplexobj(A))
        lab = ["inverse", f"mat:{kind}", "complex" if np.iscomplexobj(A) else "real"]
        return Built(mod, mod.sig_in, mod.sig_out, [v], default_seeds(), linear=False, h=2e-3, labels=lab, tol=1e-6)


RHS_SHAPES = ["n", "n1", "nk"]


def make_rhs(rng, n, shape, cplx, dependent=False):
    if shape == "n":
        return rnd(rng, (n,), cplx)
    if shape == "n1":
        return rnd(rng, (n, 1), cplx)
    b = rnd(rng, (n, 3), cplx)
    if dependent:
        b[:, 2] = 2.0 * b[:, 0] - 0.5 * b[:, 1]
    return b


@recipe("linsolve")
class LinSolveR:
    @staticmethod
    def opts(tier):
        return st.fixed_dictionaries({
            "kind": st.sampled_from(MATRIX_KINDS + ["fe_bc", "fe_bc"]), "n": st.integers(1, 8), "cplx": st.booleans(),
            "sparse": st.sampled_from([None, "csc", "csr"]), "density": st.sampled_from([1.0, 0.6, 0.3]),
            "rhs": st.sampled_from(RHS_SHAPES), "rhs_cplx": st.booleans(), "dep": st.booleans(),
            "hint": st.sampled_from([None, None, "true", "herm_only", "sym_only"]), "lda": st.booleans(),
            "solver": st.sampled_from([None, None, None, "lu", "qr", "ldl", "cg"]), "forder": st.booleans(),
        })

    @staticmethod
    def build(o, rng):
        import pymoto as pym
        kind, n = o["kind"], o["n"]
        mask = None
        fe = kind == "fe_bc"
        if fe:
            # FE matrix with Dirichlet rows/columns decoupled (LDAWrapper solves those dofs by division)
            dom = make_domain({"nel": [1 + n % 3, 1 + (n // 3) % 3, 0], "unit": [1.0, 1.5, 1.0]})
            A = np.asarray(fe_matrix(rng, dom, "stiffness" if o["cplx"] else "poisson", "left").toarray())
            n = A.shape[0]
            mask = A != 0
            kind = "spd"
        else:
            A = make_matrix(kind, n, rng, o["cplx"], 50.0)
        cplx = np.iscomplexobj(A)
        lab = ["linsolve", f"mat:{o['kind']}", "complexA" if cplx else "realA", "sparse" if o["sparse"] else "dense",
               f"rhs:{o['rhs']}"]
        if not fe and o["sparse"] and o["density"] < 1.0 and kind not in ("diag",):
            mask = pattern_mask(rng, n, o["density"])
            if kind in HERMITIAN_KINDS or kind == "complex_sym":
                mask = mask | mask.T
            Am = A * mask
            if np.linalg.cond(Am) < 200 and _class_ok(kind, Am):
                A = Am
                lab.append("masked")
            else:
                mask = None
        rhs_c = o["rhs_cplx"]
        if o["sparse"] and not cplx:
            rhs_c = False     # documented: complex rhs with real sparse matrix unsupported
        bvec = make_rhs(rng, n, o["rhs"], rhs_c, o["dep"])
        lab.append("complexb" if rhs_c else "realb")
        if o["sparse"]:
            Ast = sps.csc_matrix(A) if o["sparse"] == "csc" else sps.csr_matrix(A)
        else:
            Ast = np.asfortranarray(A) if o.get("forder") else A
            if o.get("forder"):
                bvec = np.asfortranarray(bvec)
                lab.append("fortran_order")
        a, b = sig(Ast, "A"), sig(bvec, "b")
        kw = {}
        herm = kind in HERMITIAN_KINDS or (kind == "diag" and not cplx)
        symm = herm and not cplx or kind == "complex_sym" or kind == "diag"
        if o["hint"] == "true":
            kw["hermitian"] = bool(herm)
            kw["symmetric"] = bool(symm)
            lab.append("hints")
        elif o["hint"] == "herm_only":      # only one of the two (truthful) flags is given, the other is left to LinSolve
            kw["hermitian"] = bool(herm)
            lab.append("hint:hermitian_only")
        elif o["hint"] == "sym_only":
            kw["symmetric"] = bool(symm)
            lab.append("hint:symmetric_only")
        sol = o["solver"]
        if sol is not None:
            S = pym.solvers
            if o["sparse"]:
                if sol == "cg" and kind in ("spd", "herm_pd"):
                    kw["solver"] = S.CG(tol=1e-12)
                    lab.append("solver:cg")
                elif sol == "lu":
                    kw["solver"] = S.SolverSparseLU()
                    lab.append("solver:splu")
            else:
                if sol == "lu":
                    kw["solver"] = S.SolverDenseLU()
                    lab.append("solver:lu")
                elif sol == "qr":
                    kw["solver"] = S.SolverDenseQR()
                    lab.append("solver:qr")
                elif sol == "ldl" and (herm or symm):
                    kw["solver"] = S.SolverDenseLDL()
                    lab.append("solver:ldl")
        mod = pym.LinSolve([a, b], sig(None, "x"), **kw)
        if not o["lda"]:
            mod.use_lda_solver = False
            lab.append("nolda")
        vA = class_direction(kind, n, rng, cplx, mask)
        if o["sparse"]:
            vA = sps.csc_matrix(vA)
        vb = rnd(rng, bvec.shape, rhs_c)
        return Built(mod, mod.sig_in, mod.sig_out, [vA, vb], default_seeds(), linear=False, h=2e-3, labels=lab,
                     tol=1e-6)


def _class_ok(kind, A):
    if kind in ("spd", "herm_pd"):
        return np.linalg.eigvalsh(A)[0] > 0.02 * np.abs(A).max()
    if kind == "herm_posdiag_indef":
        return np.linalg.eigvalsh(A)[0] < -0.02 and A.diagonal().real.min() > 0
    return True


def fe_matrix(rng, dom, kind="stiffness", bc="left", shift=0.0):
    """Symmetric FE matrix (dense ndarray) + its dof count, via pymoto assembly (forward assembly is C08's subject)."""
    import pymoto as pym
    x = sig(rng.uniform(0.3, 1.0, dom.nel))
    ndof = dom.dim if kind == "stiffness" else 1
    b = bc_dofs(bc, dom, ndof, rng)
    cls = {"stiffness": pym.AssembleStiffness, "poisson": pym.AssemblePoisson, "mass": pym.AssembleMass}[kind]
    m = cls(x, sig(None), dom, bc=b, bcdiagval=1.0) if b is not None else cls(x, sig(None), dom)
    m.response()
    return m.sig_out[0].state


@recipe("sysofeq")
class SysOfEqR:
    @staticmethod
    def opts(tier):
        return st.fixed_dictionaries({
            "kind": st.sampled_from(["spd", "sym_indef", "general", "herm_pd", "complex_sym"]),
            "n": st.integers(2, 8), "cplx": st.booleans(), "fmt": st.sampled_from(["csc", "csr", "dense"]),
            "npres": st.integers(1, 4), "give": st.sampled_from(["both", "free", "prescribed"]),
            "block": st.booleans(), "seedmask": st.sampled_from([[1, 1], [1, 0], [0, 1]]),
            # dtype of the load b_f and of the prescribed values x_p relative to the matrix: as the matrix, or forced
            # real / complex (mixed real and complex inputs)
            "bf_dtype": st.sampled_from(["match", "match", "real", "cplx"]),
            "xp_dtype": st.sampled_from(["match", "match", "real", "cplx"]),
        })

    @staticmethod
    def build(o, rng):
        import pymoto as pym
        kind, n = o["kind"], o["n"]
        A = make_matrix(kind, n, rng, o["cplx"], 30.0)
        cplx = np.iscomplexobj(A)
        # real sparse matrix: keep rhs real (documented restriction of the inner LinSolve)
        may_cplx = cplx or o["fmt"] == "dense"
        c_bf = {"match": cplx, "real": False, "cplx": may_cplx}[o.get("bf_dtype", "match")]
        c_xp = {"match": cplx, "real": False, "cplx": may_cplx}[o.get("xp_dtype", "match")]
        npres = min(o["npres"], n - 1)
        perm = rng.permutation(n)
        p, f = np.sort(perm[:npres]), np.sort(perm[npres:])
        # the free block must be non-singular
        if np.linalg.cond(A[np.ix_(f, f)]) > 1e3:
            A = A + (np.eye(n) * (np.abs(A).max() * 2) if kind in ("spd", "herm_pd", "general") else 0)
        Asp = A.copy() if o["fmt"] == "dense" else (sps.csc_matrix(A) if o["fmt"] == "csc" else sps.csr_matrix(A))
        k = (2,) if o["block"] else ()
        bf = sig(rnd(rng, (len(f), *k), c_bf), "bf")
        xp = sig(rnd(rng, (len(p), *k), c_xp), "xp")
        a = sig(Asp, "A")
        kw = {}
        if o["give"] in ("both", "free"):
            kw["free"] = f
        if o["give"] in ("both", "prescribed"):
            kw["prescribed"] = p
        mod = pym.SystemOfEquations([a, bf, xp], [sig(None, "x"), sig(None, "b")], **kw)
        vA = class_direction(kind, n, rng, cplx)
        if o["fmt"] != "dense":
            vA = sps.csc_matrix(vA)
        dirs = [vA, rnd(rng, bf.state.shape, c_bf), rnd(rng, xp.state.shape, c_xp)]
        lab = ["sysofeq", f"mat:{kind}", "complex" if cplx else "real", f"give:{o['give']}", f"fmt:{o['fmt']}",
               "block" if o["block"] else "vector", "seed:" + "".join(map(str, o["seedmask"]))]
        if len({bool(cplx), bool(c_bf), bool(c_xp)}) > 1:
            lab.append("mixed_real_complex_inputs")
        return Built(mod, mod.sig_in, mod.sig_out, dirs, default_seeds(o["seedmask"]), linear=False, h=2e-3,
                     labels=lab, tol=1e-6)


@recipe("staticcond")
class StaticCondR:
    @staticmethod
    def opts(tier):
        return st.fixed_dictionaries({
            "kind": st.sampled_from(["spd", "sym_indef", "general"]), "n": st.integers(3, 9),
            "fmt": st.sampled_from(["csc", "csr", "dense"]), "nmain": st.integers(1, 3), "npres": st.integers(0, 2),
            "seed": st.sampled_from(["dense", "dyad"]),
        })

    @staticmethod
    def build(o, rng):
        import pymoto as pym
        kind, n = o["kind"], o["n"]
        A = make_matrix(kind, n, rng, False, 30.0)
        nmain = min(o["nmain"], n - 2)
        npres = min(o["npres"], n - nmain - 1)
        perm = rng.permutation(n)
        m = np.sort(perm[:nmain])
        f = np.sort(perm[nmain + npres:])
        if np.linalg.cond(A[np.ix_(f, f)]) > 1e3:
            A = A + np.eye(n) * np.abs(A).max() * 2
        Asp = A.copy() if o["fmt"] == "dense" else (sps.csc_matrix(A) if o["fmt"] == "csc" else sps.csr_matrix(A))
        a = sig(Asp, "A")
        mod = pym.StaticCondensation(a, sig(None, "Ared"), main=m, free=f)
        vA = class_direction(kind, n, rng, False)
        if o["fmt"] != "dense":
            vA = sps.csc_matrix(vA)
        nm = len(m)

        def seeds(r, ys):
            if o["seed"] == "dense":
                return [rnd(r, (nm, nm))]
            return [pym.DyadCarrier(rnd(r, (nm,)), rnd(r, (nm,)))]
        lab = ["staticcond", f"mat:{kind}", f"seed:{o['seed']}", "prescribed" if npres else "noprescribed",
               f"fmt:{o['fmt']}"]
        return Built(mod, mod.sig_in, mod.sig_out, [vA], seeds, linear=False, h=2e-3, labels=lab, tol=1e-6)


# =====================================================================================================================
def sep_spectrum(rng, n, lo=1.0, hi=6.0, cplx=False):
    """n well separated values (gaps >= 0.6*(hi-lo)/n)."""
    base = lo + (hi - lo) * (np.arange(n) + 0.2 + 0.6 * rng.random(n)) / n
    if cplx:
        base = base * np.exp(1j * rng.uniform(-0.6, 0.6, n))
    return base


@recipe("eigdense")
class EigDenseR:
    @staticmethod
    def opts(tier):
        return st.fixed_dictionaries({
            "kind": st.sampled_from(["sym", "herm", "general_real", "general_cplx", "complex_sym"]),
            "n": st.integers(2, 6), "gen": st.booleans(), "seedmask": st.sampled_from([[1, 1], [1, 0], [0, 1]]),
            "hint": st.sampled_from([None, None, "true"]), "partial_modes": st.sampled_from([False, True, "entry"]), "forder": st.booleans(),
        })

    @staticmethod
    def build(o, rng):
        import pymoto as pym
        kind, n = o["kind"], o["n"]
        cplx = kind in ("herm", "general_cplx", "complex_sym")
        herm = kind in ("sym", "herm")
        lam = sep_spectrum(rng, n, cplx=(kind in ("general_cplx", "complex_sym")))
        if kind in ("sym", "herm"):
            lam = lam * np.where(rng.random(n) < 0.3, -1, 1)
        # B = L L^H positive definite; A = L C L^H with C carrying the spectrum => pencil (A,B) has eigenvalues lam
        if o["gen"]:
            Lf = np.linalg.cholesky(make_matrix("herm_pd" if (cplx and kind != "complex_sym") else "spd", n, rng,
                                                cond=8.0))
        else:
            Lf = np.eye(n)
        from pbt.common import rand_orth
        if kind in ("sym", "herm"):
            q = rand_orth(rng, n, cplx)
            C = q @ np.diag(lam) @ q.conj().T
            C = 0.5 * (C + C.conj().T)
            A = Lf @ C @ Lf.conj().T
            A = 0.5 * (A + A.conj().T)
            B = Lf @ Lf.conj().T
            B = 0.5 * (B + B.conj().T)
        elif kind == "complex_sym":
            # complex symmetric: A = U diag(lam) U^T with U complex orthogonal-ish (U = exp(iS), S real skew... )
            S = rnd(rng, (n, n))
            S = 0.3 * (S - S.T)
            import scipy.linalg as sl
            U = sl.expm(1j * S)         # U U^T = I (complex orthogonal)
            C = U @ np.diag(lam) @ U.T
            C = 0.5 * (C + C.T)
            A = Lf @ C @ Lf.T
            A = 0.5 * (A + A.T)
            B = Lf @ Lf.T
            B = 0.5 * (B + B.T)
        else:
            V = rand_orth(rng, n, cplx) + 0.3 * rnd(rng, (n, n), cplx)
            C = V @ np.diag(lam) @ np.linalg.inv(V)
            if not cplx:
                C = C.real
            A = Lf @ C @ Lf.conj().T
            B = Lf @ Lf.conj().T
        fo = np.asfortranarray if o.get("forder") else (lambda m: m)
        sa = sig(fo(A), "A")
        ins = [sa]
        vdirs = [_eig_dir(rng, kind, n, A)]
        if o["gen"]:
            sb = sig(fo(B if (cplx or not np.iscomplexobj(B)) else B.real), "B")
            ins.append(sb)
            vdirs.append(_eig_dir(rng, "herm" if np.iscomplexobj(sb.state) else "sym", n, sb.state) * 0.3)
        kw = {}
        if o["hint"] == "true":
            kw["hermitian"] = bool(herm)
        if not herm and cplx or kind == "general_real":
            # tie-free sorter on well separated |lam| (real part ordering by construction)
            kw["sorting_func"] = lambda W, Q: np.argsort(np.real(W) + 1e-3 * np.imag(W))
        mod = pym.EigenSolve(ins, [sig(None, "lam"), sig(None, "Q")], **kw)
        mask = o["seedmask"]
        pm = o["partial_modes"]

        def seeds(r, ys):
            W, Q = ys
            out = [None, None]
            if mask[0]:
                w = like(r, W)
                if pm:
                    w[::2] = 0
                out[0] = w
            if mask[1]:
                q = like(r, Q)
                if pm == "entry" and n >= 2:
                    # a response on one component of one mode shape: a single non-zero entry Q[j, i], j != i (and no
                    # eigenvalue seed for mode i). Successive calls chain the positions, (j, i) then (i, k), so that a
                    # combination of two such seeds has another sparsity pattern than its parts
                    if entry_hist:
                        j = entry_hist[-1][1]                          # row = column of the previous seed
                        i = int((j + 1 + r.integers(0, n - 1)) % n)    # any other column
                    else:
                        i = int(r.integers(0, n))
                        j = int((i + 1 + r.integers(0, n - 1)) % n)
                    entry_hist.append((j, i))
                    keep = q[j, i]
                    q[...] = 0
                    q[j, i] = keep
                    if out[0] is not None:
                        out[0][i] = 0
                elif pm:
                    q[:, 1::2] = 0
                out[1] = q
            return out
        entry_hist = []
        lab = ["eigdense", f"eig:{kind}", "generalized" if o["gen"] else "standard",
               "seed:" + "".join(map(str, mask))] + (["fortran_order"] if o.get("forder") else [])
        if pm == "entry" and mask[1]:
            lab.append("single_entry_eigenvector_seed")
        return Built(mod, mod.sig_in, mod.sig_out, vdirs, seeds, linear=False, h=1e-3, labels=lab, tol=1e-6)


def _eig_dir(rng, kind, n, A):
    c = np.iscomplexobj(A)
    v = rnd(rng, (n, n), c)
    if kind in ("sym", "herm"):
        v = 0.5 * (v + v.conj().T)
        if c:
            v[np.diag_indices(n)] = v.diagonal().real
    elif kind == "complex_sym":
        v = 0.5 * (v + v.T)
    return v


@recipe("eigsparse")
class EigSparseR:
    @staticmethod
    def opts(tier):
        return st.fixed_dictionaries({
            "dom": domain_strategy(tier, dims=(2,), max2=4, min_el=2), "nmodes": st.integers(1, 3),
            "gen": st.booleans(), "sigma": st.sampled_from([0.0, 0.0, "shift"]),
            "seedmask": st.sampled_from([[1, 0], [1, 1], [0, 1]]), "phys": st.sampled_from(["poisson", "stiffness"]),
        })

    @staticmethod
    def build(o, rng):
        import pymoto as pym
        dom = make_domain(o["dom"])
        K = sps.csc_matrix(fe_matrix(rng, dom, o["phys"], "left"))
        n = K.shape[0]
        Kd = K.toarray()
        if o["gen"]:
            M = fe_matrix(rng, dom, "mass", "none")
            if o["phys"] == "stiffness":
                M = sps.kron(M, sps.identity(dom.dim)).tocsc()
            M = sps.csc_matrix(M) + sps.identity(n) * 0.05
            Md = M.toarray()
        else:
            M, Md = None, np.eye(n)
        import scipy.linalg as sl
        w = sl.eigh(Kd, Md, eigvals_only=True)
        k = min(o["nmodes"], n - 2)
        sigma = 0.0
        if o["sigma"] == "shift":
            j = int(rng.integers(0, max(1, n - k - 1)))
            sigma = float(0.5 * (w[j] + w[j + 1])) if j + 1 < n else 0.0
        # separation of the selected window: gaps between consecutive selected values and to the next unselected
        order = np.argsort(np.abs(w - sigma))
        sel = np.sort(w[order[:k]])
        rest = w[order[k:]]
        gaps = list(np.diff(sel)) + ([np.min(np.abs(rest[:, None] - sel[None, :]))] if len(rest) else [])
        spread = max(abs(w).max(), 1e-12)
        wellsep = (min(gaps) if gaps else 1.0) > 1e-3 * spread and (len(rest) == 0 or
                  abs(abs(rest[0] - sigma) - abs(w[order[k - 1]] - sigma)) > 1e-3 * spread)
        ins = [sig(K, "K")]
        vK = sps.csc_matrix(_sym_pattern_dir(rng, K))
        dirs = [vK]
        if o["gen"]:
            ins.append(sig(M, "M"))
            dirs.append(sps.csc_matrix(_sym_pattern_dir(rng, M)) * 0.1)
        kw = {"nmodes": k, "hermitian": True}
        if sigma != 0.0:
            kw["sigma"] = sigma
        mod = pym.EigenSolve(ins, [sig(None, "lam"), sig(None, "Q")], **kw)
        lab = ["eigsparse", "generalized" if o["gen"] else "standard", "shift" if sigma != 0.0 else "noshift",
               "seed:" + "".join(map(str, o["seedmask"])), f"phys:{o['phys']}"]
        if not wellsep:
            lab.append("illsep")
        b = Built(mod, mod.sig_in, mod.sig_out, dirs, default_seeds(o["seedmask"]), linear=False, h=1e-3,
                  labels=lab, tol=1e-5)
        b.skip = not wellsep
        return b


def _sym_pattern_dir(rng, K):
    Kd = K.toarray()
    v = rng.standard_normal(Kd.shape) * (Kd != 0)
    v = 0.5 * (v + v.T)
    return v * (np.abs(Kd).max() * 0.3)


# =====================================================================================================================
@recipe("aggregation")
class AggregationR:
    @staticmethod
    def opts(tier):
        frac = st.sampled_from([0.0, 0.1, 0.25, 0.4])
        return st.fixed_dictionaries({
            "fn": st.sampled_from(["pnorm", "ks", "softminmax"]), "n": st.integers(1, 12),
            "param": st.sampled_from([-8.0, -3.0, -1.0, 1.0, 2.0, 3.0, 8.0]),
            "active": st.booleans(), "lower_rel": frac, "upper_rel": frac, "lower_amt": frac, "upper_amt": frac,
            "scaling": st.sampled_from([None, "frozen_max", "frozen_min"]),
        })

    @staticmethod
    def build(o, rng):
        import pymoto as pym
        n = o["n"]
        x0 = rng.uniform(0.5, 2.0, n)
        kw = {}
        lab = [f"agg:{o['fn']}", "pos_param" if o["param"] > 0 else "neg_param"]
        if o["active"]:
            aset = pym.AggActiveSet(lower_rel=o["lower_rel"], upper_rel=1.0 - o["upper_rel"],
                                    lower_amt=o["lower_amt"], upper_amt=1.0 - o["upper_amt"])
            # keep thresholds >= 1e-3 away from any normalised value (differentiability / fixed active set)
            if n > 1 and x0.max() > x0.min():
                xr = (x0 - x0.min()) / (x0.max() - x0.min())
                for thr in (o["lower_rel"], 1.0 - o["upper_rel"]):
                    if 0 < thr < 1 and np.min(np.abs(xr - thr)) < 5e-3:
                        x0 = x0 + 0.0  # deterministic nudge below
                        idx = int(np.argmin(np.abs(xr - thr)))
                        x0[idx] += 0.02 * (x0.max() - x0.min()) * (1 if xr[idx] >= thr else -1)
            kw["active_set"] = aset
            lab.append("active_set")
            empty = _ref_active_count(x0, o) == 0
        if o["scaling"]:
            class Frozen:   # constant scale factor object: "scaling frozen through a constant scaling object"
                def __init__(self, v):
                    self.v = v

                def __call__(self, x, fx):
                    return self.v
            kw["scaling"] = Frozen(float(rng.uniform(0.5, 2.0)))
            lab.append("frozen_scaling")
        x = sig(x0, "x")
        if o["fn"] == "pnorm":
            mod = pym.PNorm(x, sig(None, "y"), p=o["param"], **kw)
        elif o["fn"] == "ks":
            mod = pym.KSFunction(x, sig(None, "y"), rho=o["param"], **kw)
        else:
            mod = pym.SoftMinMax(x, sig(None, "y"), alpha=o["param"], **kw)
        b = Built(mod, mod.sig_in, mod.sig_out, [rnd(rng, (n,))], default_seeds(), linear=False, h=1e-3,
                  labels=lab, tol=1e-6)
        b.skip = o["active"] and empty     # an empty active set has no aggregate: inadmissible
        return b


def _ref_active_count(x, o):
    """Number of entries the documented active-set rule keeps (own implementation, see C16)."""
    n = x.size
    if x.max() == x.min():
        return n
    xr = (x - x.min()) / (x.max() - x.min())
    keep = (xr >= o["lower_rel"]) & (xr <= 1.0 - o["upper_rel"])
    order = np.argsort(x, kind="stable")
    nlo = int(n * o["lower_amt"])
    nhi = int(n * (1 - (1.0 - o["upper_amt"])))
    keep[order[:nlo]] = False
    if nhi > 0:
        keep[order[n - nhi:]] = False
    return int(keep.sum())


@recipe("scaling")
class ScalingR:
    @staticmethod
    def opts(tier):
        return st.fixed_dictionaries({"mode": st.sampled_from(["objective", "minval", "maxval"]),
                                      "shape": st.sampled_from(["py", "np0", "n"]),
                                      "scaling": st.sampled_from([1.0, 100.0, 3.5])})

    @staticmethod
    def build(o, rng):
        import pymoto as pym
        v = rng.uniform(0.5, 2.0, (3,) if o["shape"] == "n" else ())
        if o["shape"] == "py":
            v = float(v)
        elif o["shape"] == "np0":
            v = np.float64(v)
        x = sig(v, "x")
        kw = {"scaling": o["scaling"]}
        if o["mode"] == "minval":
            kw["minval"] = float(rng.uniform(0.5, 2))
        elif o["mode"] == "maxval":
            kw["maxval"] = float(rng.uniform(0.5, 2))
        mod = pym.Scaling(x, sig(None, "y"), **kw)
        if o["mode"] == "objective":
            mod.response()   # documented memory: normalises by its first value; freeze it before probing
        d = rnd(rng, (3,)) if o["shape"] == "n" else float(rng.standard_normal())
        return Built(mod, mod.sig_in, mod.sig_out, [d], default_seeds(), linear=True,
                     labels=[f"scaling:{o['mode']}", f"shape:{o['shape']}"], tol=1e-11)
