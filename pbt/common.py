"""Shared generators and oracles (DESIGN.md §2.3, §2.4). Pure numpy; nothing here imports pymoto."""
import numpy as np
from hypothesis import strategies as st

SEED = st.integers(0, 2 ** 31 - 1)

MATRIX_KINDS = ["diag", "spd", "sym_indef", "herm_pd", "herm_indef", "herm_posdiag_indef", "complex_sym", "general",
                "upper", "lower"]
# kinds that are only meaningful with complex entries
COMPLEX_ONLY = {"herm_pd", "herm_indef", "complex_sym"}
HERMITIAN_KINDS = {"spd", "sym_indef", "herm_pd", "herm_indef", "herm_posdiag_indef", "herm_tinydiag_indef"}  # (diag real counts too)


def rand_unit(rng, shape, cplx):
    x = rng.standard_normal(shape)
    if cplx:
        x = x + 1j * rng.standard_normal(shape)
    return x


def rand_orth(rng, n, cplx=False):
    q, r = np.linalg.qr(rand_unit(rng, (n, n), cplx))
    d = np.diag(r)
    return q * (d / np.abs(d))


def spectrum(rng, n, cond, signs="pos", gap=0.0):
    """n values with magnitudes in [1, cond] (log-uniform, both ends attained for n>=2)."""
    if n == 1:
        mag = np.array([1.0 + rng.random() * (cond - 1)])
    else:
        mag = np.exp(rng.random(n) * np.log(cond))
        mag[0], mag[1] = 1.0, cond
        rng.shuffle(mag)
    if signs == "pos":
        s = np.ones(n)
    else:
        s = np.where(rng.random(n) < 0.5, -1.0, 1.0)
        if n >= 2:
            s[0], s[1] = 1.0, -1.0
    return mag * s


def make_matrix(kind, n, rng, cplx=False, cond=100.0):
    """Dense n x n matrix of the named class with 2-norm condition number <= ~cond (exactly cond for n>=2 in the
    spectral constructions). Real unless cplx (the COMPLEX_ONLY kinds are always complex)."""
    cplx = bool(cplx) or kind in COMPLEX_ONLY
    if kind == "diag":
        d = spectrum(rng, n, cond, "mixed")
        if cplx:
            d = d * np.exp(1j * rng.uniform(0, 2 * np.pi, n))
        return np.diag(d)
    if kind in ("spd", "herm_pd"):
        q = rand_orth(rng, n, cplx)
        return _herm(q @ np.diag(spectrum(rng, n, cond, "pos")) @ q.conj().T)
    if kind in ("sym_indef", "herm_indef"):
        q = rand_orth(rng, n, cplx)
        return _herm(q @ np.diag(spectrum(rng, n, cond, "mixed")) @ q.conj().T)
    if kind == "herm_posdiag_indef":
        if n == 1:
            return np.array([[1.0 + rng.random()]]) + (0j if cplx else 0.0)
        b = rand_unit(rng, (n, n), cplx)
        b = b + b.conj().T
        np.fill_diagonal(b, 0.0)
        w = np.linalg.eigvalsh(b)
        b = b * (2.0 / max(abs(w[0]), abs(w[-1])))       # spectral radius 2, lambda_min(b) <= -2/ (n-1) ... see below
        a = np.eye(n) + b
        w = np.linalg.eigvalsh(a)
        # make sure it is indefinite and well away from singular
        t = 1.0
        for _ in range(60):
            w = np.linalg.eigvalsh(np.eye(n) + t * b)
            if w[0] < -0.05 and np.min(np.abs(w)) > 0.05:
                break
            t *= 1.17
        return _herm(np.eye(n) + t * b)
    if kind == "herm_tinydiag_indef":
        # Hermitian, indefinite, well conditioned, with a one-signed diagonal that is tiny against the off-diagonal
        # entries: 2x2 blocks [[d, c], [conj(c), d]] with 0 < d << |c| (eigenvalues d +- |c|), hidden by a symmetric
        # permutation; odd n gets one 1x1 block of size 1. A factorisation that does not pivot loses all accuracy here.
        a = np.zeros((n, n), dtype=complex if cplx else float)
        d = 1e-7
        mags = np.exp(rng.uniform(0.0, np.log(max(cond, 1.0)) / 2.0, n // 2))
        for k in range(n // 2):
            c = mags[k] * (np.exp(1j * rng.uniform(0, 2 * np.pi)) if cplx else rng.choice([-1.0, 1.0]))
            a[2 * k, 2 * k] = a[2 * k + 1, 2 * k + 1] = d
            a[2 * k, 2 * k + 1], a[2 * k + 1, 2 * k] = c, np.conj(c)
        if n % 2:
            a[n - 1, n - 1] = 1.0
        p = rng.permutation(n)
        return a[np.ix_(p, p)]
    if kind == "complex_sym":
        u = rand_orth(rng, n, True)
        return _sym(u @ np.diag(spectrum(rng, n, cond, "pos")) @ u.T)
    if kind == "general":
        u, v = rand_orth(rng, n, cplx), rand_orth(rng, n, cplx)
        return u @ np.diag(spectrum(rng, n, cond, "pos")) @ v.conj().T
    if kind in ("upper", "lower"):
        a = rand_unit(rng, (n, n), cplx) * 0.5
        a = np.triu(a, 1)
        d = spectrum(rng, n, max(1.2, min(cond, 10.0) / 3.0), "mixed")   # leaves room for the off-diagonal part
        for _ in range(40):
            m = a + np.diag(d)
            if np.linalg.cond(m) <= cond:
                break
            a = a * 0.6
        m = a + np.diag(d)
        return m if kind == "upper" else m.T.copy()
    raise ValueError(kind)


def _herm(a):
    a = 0.5 * (a + a.conj().T)
    if np.iscomplexobj(a):
        a[np.diag_indices_from(a)] = a.diagonal().real
    return a


def _sym(a):
    return 0.5 * (a + a.T)


def class_direction(kind, n, rng, cplx, pattern=None):
    """A perturbation direction that keeps a matrix inside its class (DESIGN §2.3)."""
    cplx = bool(cplx) or kind in COMPLEX_ONLY
    v = rand_unit(rng, (n, n), cplx)
    if kind == "diag":
        v = np.diag(np.diag(v))
    elif kind in ("spd", "sym_indef", "herm_pd", "herm_indef", "herm_posdiag_indef", "herm_tinydiag_indef"):
        v = _herm(v)
    elif kind == "complex_sym":
        v = _sym(v)
    elif kind == "upper":
        v = np.triu(v)
    elif kind == "lower":
        v = np.tril(v)
    if pattern is not None:
        v = v * pattern
    return v


def rel_err(a, b, scale=None):
    a, b = np.asarray(a), np.asarray(b)
    s = max(np.max(np.abs(a), initial=0.0), np.max(np.abs(b), initial=0.0), 0.0 if scale is None else scale)
    if s == 0:
        return 0.0
    return float(np.max(np.abs(a - b), initial=0.0) / s)


def richardson(phi, h):
    """Derivative of the scalar function phi at 0 by central differences with two Richardson levels.
    Returns (value, error_estimate)."""
    def d(hh):
        return (phi(hh) - phi(-hh)) / (2 * hh)
    d0, d1, d2 = d(h), d(h / 2), d(h / 4)
    r1 = (4 * d1 - d0) / 3
    r2 = (4 * d2 - d1) / 3
    rr = (16 * r2 - r1) / 15
    return float(rr), float(abs(rr - r2))


def real_inner(g, v):
    """Re sum(g * v) for scalars / dense arrays (the finite_difference convention)."""
    return float(np.real(np.sum(np.asarray(g) * np.asarray(v))))


def domain_strategy(tier, dims=(2, 3), max2=None, max3=None, min_el=1):
    """(nelx, nely, nelz, ux, uy, uz) with nelz = 0 for 2D."""
    big = tier != "quick"
    m2 = max2 or (10 if big else 6)
    m3 = max3 or (5 if big else 4)
    unit = st.one_of(st.sampled_from([1.0, 0.5, 2.0]), st.floats(0.2, 5.0, allow_nan=False).map(lambda x: round(x, 3)))

    @st.composite
    def dom(draw):
        dim = draw(st.sampled_from(list(dims)))
        if dim == 2:
            nel = [draw(st.integers(min_el, m2)), draw(st.integers(min_el, m2)), 0]
        else:
            nel = [draw(st.integers(min_el, m3)) for _ in range(3)]
        units = [draw(unit), draw(unit), draw(unit)]
        if draw(st.sampled_from([False] * 5 + [True])):
            units = [draw(st.integers(1, 3)) for _ in range(3)]    # integer-typed element sizes (element_size gets an int dtype)
        return {"nel": nel, "unit": units}
    return dom()


def make_domain(d):
    import pymoto as pym
    return pym.DomainDefinition(d["nel"][0], d["nel"][1], d["nel"][2], unitx=d["unit"][0], unity=d["unit"][1],
                                unitz=d["unit"][2])
