"""Derivative/adjoint oracle shared by C01, C04 (DESIGN §2.4).

Convention (the one of pymoto.finite_difference, named by property C01): after seeding outputs with w_j and calling
sensitivity(), every input holds g_i with   sum_i Re sum(g_i * v_i)  ==  d/dt  sum_j Re sum(w_j * y_j(x + t v)) at t=0.
"""
import copy
import numpy as np
import scipy.sparse as sps
from pbt.common import richardson


def is_dyad(a):
    return type(a).__name__ == "DyadCarrier"


def to_dense(a):
    """Dense ndarray / scalar view of a state, seed or sensitivity (None -> None)."""
    if a is None:
        return None
    if sps.issparse(a):
        return a.toarray()
    if is_dyad(a):
        if a.shape[0] < 0 or a.shape[1] < 0:
            return None      # empty DyadCarrier without shape: pyMOTO's representation of a zero matrix of any size
        return a.todense()
    return np.asarray(a)


def inner(g, v):
    """Re sum(g*v); g may be None (zero), dense, sparse or DyadCarrier; v dense/sparse/scalar."""
    if g is None or v is None:
        return 0.0
    gd, vd = to_dense(g), to_dense(v)
    if gd.shape != vd.shape:
        if gd.size == vd.size:
            gd = gd.reshape(vd.shape)
        else:
            raise ShapeMismatch(f"sensitivity shape {gd.shape} vs input shape {vd.shape}")
    return float(np.real(np.sum(gd * vd)))


class ShapeMismatch(Exception):
    pass


def shifted(x, t, v):
    """x + t*v preserving the container type of x (python scalar, ndarray, sparse format)."""
    if v is None:
        return copy.deepcopy(x)
    if sps.issparse(x):
        return (x + t * v).asformat(x.format)
    if isinstance(x, np.ndarray):
        return x + t * np.asarray(v).reshape(x.shape)
    if isinstance(x, (bool, int, float, complex)) and not isinstance(x, np.generic):
        r = x + t * v
        r = complex(r) if isinstance(r, (complex, np.complexfloating)) or np.iscomplexobj(r) else float(r)
        return r
    return x + t * v   # numpy scalar


def snapshot(a):
    """Hashable-ish deep snapshot of a value for bit-wise comparison."""
    if a is None:
        return ("none",)
    if sps.issparse(a):
        b = a.copy()
        return ("sparse", a.format, a.shape, b.data.tobytes(), b.indices.tobytes(), b.indptr.tobytes())
    if is_dyad(a):
        return ("dyad", a.shape, tuple(u.tobytes() for u in a.u), tuple(v.tobytes() for v in a.v))
    if isinstance(a, np.ndarray):
        return ("nd", a.shape, str(a.dtype), a.tobytes())
    if isinstance(a, np.generic):
        return ("npscalar", str(a.dtype), a.tobytes())
    if isinstance(a, (list, tuple)):
        return ("seq", tuple(snapshot(b) for b in a))
    return ("py", type(a).__name__, repr(a))


def seeded_value(ws, ys):
    s = 0.0
    for w, y in zip(ws, ys):
        if w is None:
            continue
        s += inner(w, y)
    return s


class Built:
    """A constructed module with everything needed to probe it.

    mod: pymoto Module;  sin/sout: its input/output signals (states of inputs set)
    x: original input states;  dirs: list of direction (or None = not differentiated) per input
    seeds: callable(rng, outputs_states) -> list of seed (or None) per output
    linear: response is affine in the differentiated inputs (exact differences with h = 1)
    h: base step for Richardson;  labels: classification labels;  tol: relative tolerance
    """
    def __init__(self, mod, sin, sout, dirs, seeds, linear=False, h=1e-2, labels=(), tol=1e-6, name=""):
        self.mod, self.sin, self.sout = mod, list(sin), list(sout)
        self.x = [copy.deepcopy(s.state) for s in self.sin]
        self.dirs, self.seeds = list(dirs), seeds
        self.linear, self.h, self.labels, self.tol, self.name = linear, h, list(labels), tol, name

    def set_inputs(self, t=0.0, dirs=None):
        dirs = self.dirs if dirs is None else dirs
        for s, x, v in zip(self.sin, self.x, dirs):
            s.state = shifted(x, t, v) if t != 0.0 else copy.deepcopy(x)

    def outputs(self):
        return [s.state for s in self.sout]


def copy_seed(w):
    return None if w is None else copy.deepcopy(w)


def analytic(b, ws):
    """reset; response at x; seed; sensitivity. Returns list of input sensitivities (objects as stored)."""
    b.mod.reset()
    b.set_inputs(0.0)
    b.mod.response()
    for s, w in zip(b.sout, ws):
        s.sensitivity = copy_seed(w)
    b.mod.sensitivity()
    return [s.sensitivity for s in b.sin]


def numeric(b, ws, dirs=None):
    """Directional derivative of sum_j Re sum(w_j*y_j) along dirs; returns (value, err_estimate)."""
    def phi(t):
        b.set_inputs(t, dirs)
        b.mod.response()
        return seeded_value(ws, b.outputs())
    try:
        if b.linear:
            # exact difference of an affine function; its only error is the rounding of the two function values
            fp, fm = phi(1.0), phi(-1.0)
            return 0.5 * (fp - fm), 4 * np.finfo(float).eps * (abs(fp) + abs(fm))
        return richardson(phi, b.h)
    finally:
        b.set_inputs(0.0)


def compare(a, d, e, scale, tol):
    """Returns ('ok'|'inconclusive'|'bad', relative_difference)."""
    ref = max(abs(a), abs(d), scale, 1e-300)
    if not np.isfinite(d) or not np.isfinite(e):
        return "inconclusive", float("inf")   # response not finite along the direction: outside the differentiable domain
    if not np.isfinite(a):
        return "bad", float("inf")
    if e > 1e-4 * ref:
        return "inconclusive", abs(a - d) / ref
    if abs(a - d) > tol * ref + 50 * e:
        return "bad", abs(a - d) / ref
    return "ok", abs(a - d) / ref
