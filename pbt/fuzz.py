"""Coverage-guided engine (atheris/libFuzzer) driving the *same* Hypothesis strategy and check_case of a property
module through `test.hypothesis.fuzz_one_input`.

    python -m pbt.fuzz <ID> --runs N --seed S --out FILE [--tier thorough]

libFuzzer ends the process without running atexit handlers, so the accumulated result (same structure as a harness
shard) is dumped to FILE every few hundred executions and at every violation. Used by the thorough tier of the
properties whose code under test is branch-heavy pure Python (C15 DyadCarrier, C18 Signal/SignalSlice).
A `-seed`/`-runs` pinned campaign is only approximately reproducible; the reproducible unit is the recorded case.
"""
import argparse
import json
import os
import sys
import tempfile


def main():
    ap = argparse.ArgumentParser()
    ap.add_argument("pid")
    ap.add_argument("--runs", type=int, default=20000)
    ap.add_argument("--seed", type=int, default=1)
    ap.add_argument("--out", required=True)
    ap.add_argument("--tier", default="thorough")
    ap.add_argument("--instrument", default="pymoto.common.dyadcarrier,pymoto.core_objects")
    a = ap.parse_args()
    import warnings
    warnings.simplefilter("ignore")
    import atheris
    with atheris.instrument_imports(include=a.instrument.split(",")):
        import pymoto  # noqa: F401
    from pbt import harness as H
    from hypothesis import given, settings, HealthCheck
    H.check_repo_import()
    mod = H.find_module(a.pid)
    known = H.load_findings(a.pid)
    res = H.new_result()
    state = {"n": 0}

    def dump():
        out = dict(res)
        out["hashes"] = sorted(res["hashes"])
        out["nt_hashes"] = sorted(res["nt_hashes"])
        tmp = a.out + ".tmp"
        with open(tmp, "w") as fh:
            json.dump(out, fh, default=H._json_default)
        os.replace(tmp, a.out)

    @settings(database=None, deadline=None, suppress_health_check=list(HealthCheck), max_examples=10 ** 9)
    @given(mod.strategy(a.tier))
    def test(case):
        nv = sum(v["count"] for v in res["viol"].values())
        H.record_case(mod, res, case, known)
        state["n"] += 1
        if state["n"] % 500 == 0 or sum(v["count"] for v in res["viol"].values()) != nv:
            dump()

    corpus = tempfile.mkdtemp(prefix="verif_fuzz_")
    dump()
    atheris.Setup([sys.argv[0], f"-runs={a.runs}", f"-seed={a.seed}", "-max_len=4096", "-print_final_stats=0",
                   "-verbosity=0", corpus], test.hypothesis.fuzz_one_input)
    try:
        atheris.Fuzz()
    finally:
        dump()


if __name__ == "__main__":
    main()
