"""Coverage-guided engine (atheris/libFuzzer) driving the *same* Hypothesis strategy and check_case of a property
module through `test.hypothesis.fuzz_one_input`.

    python -m pbt.fuzz <ID> --runs N --seed S --out FILE [--tier thorough]

libFuzzer ends the process without running atexit handlers, so the accumulated result (same structure as a harness
shard) is dumped to FILE every few hundred executions and at every violation. Used by the thorough tier of the
properties whose code under test is branch-heavy pure Python (C15 DyadCarrier, C18 Signal/SignalSlice).
A `-seed`/`-runs` pinned campaign is only approximately reproducible; the reproducible unit is the recorded case.
"""
import argparse
import json
import os
import sys
import tempfile


def _patch_bytestring_provider():
    """Hypothesis 6.168's BytestringProvider.draw_integer compares the raw bits with [min_value, max_value] without
    adding min_value, so e.g. integers(2, 3) never terminates (every input is an overrun). Work around it here."""
    from hypothesis.internal.conjecture.providers import BytestringProvider

    def draw_integer(self, min_value=None, max_value=None, *, weights=None, shrink_towards=0):
        if min_value is None and max_value is None:
            min_value, max_value = -(2 ** 127), 2 ** 127 - 1
        elif min_value is None:
            min_value = max_value - 2 ** 64
        elif max_value is None:
            max_value = min_value + 2 ** 64
        if min_value == max_value:
            return min_value
        bits = (max_value - min_value).bit_length()
        value = min_value + self._draw_bits(bits)
        while value > max_value:
            value = min_value + self._draw_bits(bits)
        return value
    BytestringProvider.draw_integer = draw_integer


def main():
    ap = argparse.ArgumentParser()
    ap.add_argument("pid")
    ap.add_argument("--runs", type=int, default=20000)
    ap.add_argument("--seed", type=int, default=1)
    ap.add_argument("--out", required=True)
    ap.add_argument("--tier", default="thorough")
    ap.add_argument("--instrument", default="pymoto.common.dyadcarrier,pymoto.core_objects")
    a = ap.parse_args()
    import warnings
    warnings.simplefilter("ignore")
    import atheris
    with atheris.instrument_imports(include=a.instrument.split(",")):
        import pymoto  # noqa: F401
    from pbt import harness as H
    from hypothesis import given, settings, HealthCheck
    _patch_bytestring_provider()
    H.check_repo_import()
    mod = H.find_module(a.pid)
    known = H.load_findings(a.pid)
    res = H.new_result()
    state = {"n": 0}
    every = max(25, a.runs // 40)    # dump period (libFuzzer exits without running any Python cleanup)

    def dump():
        out = dict(res)
        out["hashes"] = sorted(res["hashes"])
        out["nt_hashes"] = sorted(res["nt_hashes"])
        tmp = a.out + ".tmp"
        with open(tmp, "w") as fh:
            json.dump(out, fh, default=H._json_default)
        os.replace(tmp, a.out)

    @settings(database=None, deadline=None, suppress_health_check=list(HealthCheck), max_examples=10 ** 9)
    @given(mod.strategy(a.tier))
    def test(case):
        nv = sum(v["count"] for v in res["viol"].values())
        H.record_case(mod, res, case, known)
        state["n"] += 1
        if state["n"] % every == 0 or sum(v["count"] for v in res["viol"].values()) != nv:
            dump()

    corpus = tempfile.mkdtemp(prefix="verif_fuzz_")
    # start corpus: a few pseudo-random byte strings long enough for the strategy (short inputs are rejected by
    # Hypothesis as "overrun" and libFuzzer only grows lengths slowly), plus the empty input
    import random
    rr = random.Random(a.seed)
    for i in range(8):
        with open(os.path.join(corpus, f"seed{i}"), "wb") as fh:
            fh.write(bytes(rr.getrandbits(8) for _ in range(2048)))
    dump()
    atheris.Setup([sys.argv[0], f"-runs={a.runs}", f"-seed={a.seed}", "-max_len=8192", "-len_control=0",
                   "-print_final_stats=0", "-verbosity=0", corpus], test.hypothesis.fuzz_one_input)
    try:
        atheris.Fuzz()
    finally:
        dump()


if __name__ == "__main__":
    main()
