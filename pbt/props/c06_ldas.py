"""C06 — the linear-dependency-aware solver (LDAWrapper) is transparent and reuses earlier solutions.

case = a wrapper configuration (inner solver, matrix class / explicit off-diagonal sparsity pattern, storage, true
symmetry hints, tolerance) + a history: list of ops  update(A') / solve(b, trans, x0)  interpreted against
LDAWrapper(CountingSolver(inner)) and against a small reference model (DESIGN.md section 3, C06):

 (i)   every returned x satisfies the requested system of the *current* matrix, relative residual <= 10*tol per column
 (ii)  a call that raises is re-issued on a fresh wrapper (update(A_current) + the same solve); fresh succeeds => violation
 (iii) model: per storage (normal / adjoint, documented conjugation table) the effective right-hand sides solved since the
       last update(); if every column of the new effective rhs is an exact combination of them the inner solve() counter
       must not change (one direction only)
 (iv)  after update() earlier right-hand sides are asked again; anything kept from the earlier matrix makes (i) fail.
"""
import traceback
import re
import numpy as np
import scipy.sparse as sps
from hypothesis import strategies as st
from pbt.harness import viol
from pbt.common import make_matrix, rand_unit, SEED, COMPLEX_ONLY

PROPERTY_ID = "C06"
RES_FACTOR = 10.0         # (i): ||op(A)x-b|| <= 10*tol*||b|| per column (tol = wrapper tolerance, default 1e-7)
INSPAN = 1e-12            # relative distance to the span below which a rhs "lies in the span" (exact combinations: ~1e-16)
NEWDIR = 1e-2             # a stored rhs whose new component is smaller than this makes the storage "ambiguous" (no count claim)

RULE = ("case = LDAWrapper(CountingSolver(inner)) with inner in {DenseLU, DenseQR, DenseLDL, DenseCholesky, SparseLU, "
        "Diagonal, CG}, a matrix class admissible for the inner solver (one class per wrapper life; explicit off-diagonal "
        "sparsity patterns: all 2^(n(n-1)) patterns for n=3 (quick) / n=4 (thorough) x 12 scripted histories are "
        "enumerated, random patterns up to n=10 are generated), dense/csc/csr, true symmetric/hermitian hints or none, and a "
        "history of 2..14 (24 thorough) ops: update(new values | same | scaled | more special) and solve(b, trans in N/T/H, x0) "
        "with b built column-wise from: new random, exact repeat / scalar multiple / linear combination (real and complex "
        "coefficients) of earlier columns, conjugate / real part of an earlier column, zero, unit vector; vector and block; "
        "real and complex interleaved. Non-trivial = history has an in-span solve after >= 2 stored solutions, or >= 2 "
        "updates, or the matrix has a non-symmetric pattern with a structurally decoupled row or column. Distinct = sha1 "
        "of the canonical case JSON.")
EXHAUSTIVE_NOTE = ("all off-diagonal sparsity patterns of n x n matrices with non-zero diagonal: n=3 (64 patterns) in the "
                   "quick tier, n=4 (4096 patterns) in the thorough tier; each with 12 scripted histories (modes N/T/H, "
                   "vector/block, unit-vector / repeated / combined / zero / complex rhs, x0, updates); values strictly "
                   "diagonally dominant, inner solver DenseLU / DenseQR / SparseLU(csc|csr)")
FUZZ = {"quick": 0, "thorough": 3000, "instrument": "pymoto.solvers.auto_determine"}
ASSUMPTIONS = [
    "all matrices of one wrapper life belong to one symmetry class (a later matrix may be more special, never less); "
    "user hints, when given, are true",
    "matrices are non-singular with bounded condition number (spectral classes cond <= 1e2; pattern matrices strictly "
    "diagonally dominant by rows and columns)",
    "complex right-hand sides are not combined with a real sparse matrix and the SuperLU inner solver (documented as "
    "unsupported)",
    "inner CG uses tol=1e-10 (well below the wrapper tolerance) with identity or Jacobi preconditioner",
    "span = complex linear span; the count claim is made only when every column of the effective rhs is within 1e-12 "
    "(relative) of the span of the effective right-hand sides solved since the last update in the same storage and no "
    "stored rhs added a direction smaller than 1e-2 (relative) - otherwise the case counts as ambiguous and nothing is "
    "claimed",
    "cross-mode reuse follows the documented conjugation table (symmetric: T->(N,b), H->(N,conj b); Hermitian: "
    "T->(N,conj b), H->(N,b); otherwise T->(adjoint,conj b), H->(adjoint,b)); same-mode and cross-mode shortfalls are "
    "reported in different buckets",
    "trusted base: numpy dense algebra",
]

INNER_CLASSES = {
    "lu": ["general", "pattern", "pattern", "upper", "lower", "spd", "sym_indef", "herm_indef", "complex_sym", "diag",
           "pattern_sym"],
    "qr": ["general", "pattern", "pattern", "lower", "herm_pd", "complex_sym", "pattern_sym"],
    "splu": ["general", "pattern", "pattern", "pattern_sym", "spd", "herm_indef", "complex_sym", "upper"],
    "ldl": ["spd", "sym_indef", "herm_pd", "herm_indef", "complex_sym", "pattern_sym", "diag"],
    "chol": ["spd", "herm_pd", "pattern_sym", "sym_indef", "herm_indef"],
    "diag": ["diag"],
    "cg": ["spd", "herm_pd", "pattern_sym"],
}
INNER_WEIGHTS = ["lu", "lu", "lu", "qr", "qr", "splu", "splu", "splu", "ldl", "ldl", "chol", "chol", "cg", "cg", "diag"]
REAL_COEF = [[2.5, 0.0], [-1.0, 0.0], [0.5, 0.0], [3.8, 0.0], [1.0, 0.0]]
CPLX_COEF = [[0.0, 1.0], [6.3, 3.1], [0.5, -2.0]]


def budget(tier):
    return {"examples": 9000 if tier == "quick" else 80000, "shards": 16, "shrink": 400 if tier == "quick" else 2000}


# ---------------------------------------------------------------------------------------------------------------
# case construction helpers (shared by the strategy and the enumeration)
def col_new(cplx=False, scale=1.0):
    d = {"t": "new", "cplx": bool(cplx)}
    if scale != 1.0:
        d["scale"] = float(scale)     # magnitude of the column (load cases of very different size in one block)
    return d


def col_ref(i, coef=(1.0, 0.0)):
    return {"t": "ref", "i": int(i), "coef": [float(coef[0]), float(coef[1])]}


def col_combo(refs, coefs):
    return {"t": "combo", "refs": [int(r) for r in refs], "coefs": [[float(c[0]), float(c[1])] for c in coefs]}


def S(trans, cols, vec=False, x0="none"):
    return {"op": "solve", "trans": trans, "rhs": {"cols": cols, "vec": bool(vec)}, "x0": x0}


def U(how="new", inplace=False):
    return {"op": "update", "how": how, "inplace": bool(inplace)}


ZERO = {"t": "zero"}


def unit(i):
    return {"t": "unit", "i": int(i)}


def scripts(n):
    """12 scripted histories (column references are indices into the pool of all columns generated so far)."""
    un = [S("N", [unit(i)], vec=True) for i in range(n)]
    ut = [S("T", [unit(i)], vec=True) for i in range(n)]
    uh = [S("H", [unit(i)], vec=True) for i in range(n)]
    return [
        # 0 vectors: new / multiple, per mode
        [S("N", [col_new()], True), S("N", [col_ref(0, (2.5, 0))], True), S("T", [col_new()], True),
         S("T", [col_ref(2, (3.8, 0))], True), S("H", [col_new()], True), S("H", [col_ref(4, (-1, 0))], True),
         S("N", [col_ref(2)], True), S("T", [col_ref(0)], True)],
        # 1 blocks with combinations
        [S("N", [col_new(), col_new()]), S("N", [col_combo([0, 1], [(2.5, 0), (-1, 0)]), col_ref(0)]),
         S("T", [col_new(), col_new()]), S("T", [col_combo([4, 5], [(0.5, 0), (3.8, 0)])], True),
         S("H", [col_combo([4, 5], [(1, 0), (1, 0)]), col_new()]), S("N", [col_ref(1, (0.5, 0)), col_new(), col_ref(0)])],
        # 2 unit vectors, normal first then transposed; then everything is in the span
        un + [S("N", [col_new()], True)] + ut + [S("T", [col_new()], True), S("H", [col_new(), col_new()])],
        # 3 unit vectors, adjoint first
        uh + [S("H", [col_new()], True)] + un + [S("N", [col_new(), col_new()]), S("T", [col_new()], True)],
        # 4 updates in between, the same right-hand sides asked again
        [S("N", [col_new()], True), S("T", [col_new()], True), U("new"), S("N", [col_ref(0)], True), S("T", [col_ref(1)], True),
         S("N", [col_ref(0, (2.5, 0))], True), U("scaled"), S("N", [col_ref(0)], True), S("H", [col_ref(1)], True),
         S("T", [col_ref(1)], True)],
        # 5 complex right-hand sides
        [S("N", [col_new(True)], True), S("N", [col_ref(0, (6.3, 3.1))], True), S("T", [col_new(True)], True),
         S("H", [col_ref(2, (0, 1))], True), S("H", [col_new(True), col_new(True)]),
         S("T", [col_combo([4, 5], [(0.5, -2), (1, 0)])], True), S("N", [{"t": "conj", "i": 0}], True),
         S("N", [{"t": "re", "i": 0}], True)],
        # 6 real and complex interleaved
        [S("N", [col_new()], True), S("N", [col_new(True)], True), S("N", [col_new()], True), S("T", [col_new(True)], True),
         S("T", [col_new()], True), S("H", [col_new()], True), S("H", [col_new(True)], True), S("N", [col_ref(0, (0, 1))], True)],
        # 7 initial guesses
        [S("N", [col_new()], True, "rand"), S("N", [col_new()], True, "rand"), S("N", [col_ref(0, (2.5, 0))], True, "exact"),
         S("T", [col_new()], True, "zero"), S("T", [col_new()], True, "rand"), S("H", [col_new(), col_new()], False, "rand")],
        # 8 zero right-hand sides and zero columns
        [S("N", [ZERO], True), S("N", [col_new(), ZERO]), S("N", [col_ref(0), ZERO, col_new()]), S("T", [ZERO], True),
         S("H", [ZERO, col_new()]), S("T", [col_ref(1), col_ref(5)])],
        # 9 blocks, complex, x0
        [S("N", [col_new(True), col_new()], False, "rand"), S("N", [col_combo([0, 1], [(1, 0), (0, 1)]), col_new()], False, "rand"),
         S("H", [col_new(), col_new(True)]), S("T", [col_ref(4), col_new()], False, "exact"), S("H", [col_ref(5, (0.5, -2))], True)],
        # 10 modes interleaved, then combinations
        [S("N", [col_new()], True), S("T", [col_new()], True), S("H", [col_new()], True), S("N", [col_new()], True),
         S("T", [col_new()], True), S("H", [col_new()], True), S("N", [col_combo([0, 3], [(2.5, 0), (0.5, 0)])], True),
         S("T", [col_combo([1, 4], [(-1, 0), (3.8, 0)])], True), S("H", [col_combo([2, 5], [(1, 0), (-1, 0)])], True),
         S("H", [col_combo([1, 4], [(1, 0), (1, 0)])], True)],
        # 11 repeated update with the same matrix, new values later
        [U("same"), S("N", [col_new()], True), U("same"), S("N", [col_ref(0)], True), S("T", [col_new(), col_new()]), U("new"),
         S("T", [col_ref(2), col_ref(3)]), S("N", [col_ref(0)], True), U("new"), S("H", [col_ref(2)], True)],
    ]


def enumerate_cases(tier):
    n = 3 if tier == "quick" else 4
    nbits = n * (n - 1)
    out = []
    scr = scripts(n)
    for pat in range(2 ** nbits):
        for k, ops in enumerate(scr):
            cplx_rhs = k in (5, 6, 9)
            if cplx_rhs:
                inner, storage = ("lu", "dense") if (pat + k) % 2 == 0 else ("qr", "dense")
            else:
                inner, storage = [("lu", "dense"), ("splu", "csc"), ("qr", "dense"), ("splu", "csr")][(pat + k) % 4]
            out.append({"inner": inner, "mclass": "pattern", "cplx": bool(k == 10 and pat % 2 == 1), "storage": storage,
                        "n": n, "pattern": pat, "hints": [False, False], "tol": None, "ctor": bool((pat + k) % 3 == 0),
                        "payload_seed": pat * 16 + k, "ops": ops})
    return out


# ---------------------------------------------------------------------------------------------------------------
def strategy(tier):
    big = tier != "quick"

    coef = st.one_of(st.sampled_from(REAL_COEF), st.sampled_from(REAL_COEF), st.sampled_from(CPLX_COEF))
    idx = st.integers(0, 40)
    col = st.one_of(
        st.builds(col_new, st.booleans()), st.builds(col_new, st.just(False)),
        st.builds(col_new, st.booleans(), st.sampled_from([1e-9, 1e-12, 1e8])),
        st.builds(col_ref, idx, coef), st.builds(col_ref, idx, st.just([1.0, 0.0])),
        st.builds(col_combo, st.lists(idx, min_size=2, max_size=3), st.lists(coef, min_size=3, max_size=3)),
        st.just(ZERO), st.builds(unit, idx),
        st.builds(lambda i: {"t": "conj", "i": i}, idx), st.builds(lambda i: {"t": "re", "i": i}, idx))
    rhs = st.one_of(st.builds(lambda c: {"cols": [c], "vec": True}, col),
                    st.builds(lambda cs, ac: {"cols": cs, "vec": False, "as_complex": ac},
                              st.lists(col, min_size=1, max_size=3), st.sampled_from([False] * 9 + [True])))
    solve = st.builds(lambda t, r, x: {"op": "solve", "trans": t, "rhs": r, "x0": x},
                      st.sampled_from(["N", "N", "T", "H"]), rhs, st.sampled_from(["none"] * 5 + ["rand", "exact", "zero"]))
    # inplace: the new values are written into the matrix object handed over before (same object, same pattern/dtype)
    update = st.builds(U, st.sampled_from(["new", "new", "same", "scaled", "special", "dtype_switch", "dtype_switch", "permuted", "permuted"]),
                       st.sampled_from([False, False, True]))
    op = st.one_of(solve, solve, solve, solve, solve, solve, update)

    @st.composite
    def case(draw):
        inner = draw(st.sampled_from(INNER_WEIGHTS))
        mclass = draw(st.sampled_from(INNER_CLASSES[inner]))
        n = draw(st.sampled_from([1, 2, 2, 3, 3, 3, 4, 4, 5, 5, 6, 7, 8, 10]))
        c = {"inner": inner, "mclass": mclass, "n": n}
        if mclass in COMPLEX_ONLY:
            c["cplx"] = True
        elif mclass in ("spd", "sym_indef"):
            c["cplx"] = False
        else:
            c["cplx"] = draw(st.booleans())
        if inner == "splu":
            c["storage"] = draw(st.sampled_from(["csc", "csr"]))
        elif inner in ("cg", "diag"):
            c["storage"] = draw(st.sampled_from(["dense", "csc", "csr"]))
        else:
            c["storage"] = "dense"
        if mclass in ("pattern", "pattern_sym"):
            full = 2 ** (n * (n - 1)) - 1
            pat = draw(st.integers(0, full))
            for _ in range(draw(st.sampled_from([0, 1, 1, 2, 3]))):     # AND of k+1 draws: density 1/2 ... 1/16
                pat &= draw(st.integers(0, full))
            c["pattern"] = pat
        else:
            c["pattern"] = None
        c["hints"] = [draw(st.booleans()), draw(st.booleans())]       # give the true symmetric / hermitian flag
        c["tol"] = draw(st.sampled_from([None, None, None, 1e-5, 1e-9]))
        c["ctor"] = draw(st.booleans())
        c["via_linsolve"] = draw(st.sampled_from([False, False, False, True]))
        c["payload_seed"] = draw(SEED)
        c["ops"] = draw(st.lists(op, min_size=2, max_size=24 if big else 14))
        return c
    return case()


def nontrivial(labels):
    return "nt:inspan_after2" in labels or "nt:updates2" in labels or "nt:nonsym_decoupled" in labels


# ---------------------------------------------------------------------------------------------------------------
# matrices
def pattern_mask(n, bits, symmetric):
    mask = np.zeros((n, n), dtype=bool)
    t = 0
    for i in range(n):
        for j in range(n):
            if i != j:
                if (bits >> t) & 1:
                    mask[i, j] = True
                t += 1
    if symmetric:
        mask = np.triu(mask) | np.triu(mask).T
    return mask


def gen_matrix(mclass, n, cplx, pattern, rng):
    if mclass in ("pattern", "pattern_sym"):
        sym = mclass == "pattern_sym"
        mask = pattern_mask(n, pattern, sym)
        v = rand_unit(rng, (n, n), cplx)
        mag = 0.3 + 1.2 * rng.random((n, n))
        v = v / np.abs(v) * mag * mask
        if sym:
            v = np.triu(v, 1)
            v = v + v.conj().T
        a = np.abs(v)
        d = np.maximum(a.sum(axis=0), a.sum(axis=1)) * 1.2 + 0.5 + rng.random(n)
        if not sym:
            sg = np.where(rng.random(n) < 0.5, -1.0, 1.0)
            if cplx:
                sg = sg * np.exp(1j * rng.uniform(0, 2 * np.pi, n))
            d = d * sg
        return v + np.diag(d)
    return make_matrix(mclass, n, rng, cplx, 100.0)


def to_storage(Ad, storage):
    return Ad if storage == "dense" else (sps.csc_matrix(Ad) if storage == "csc" else sps.csr_matrix(Ad))


def decoupled(Ad):
    """(row_decoupled, col_decoupled): boolean per dof - no off-diagonal non-zero in its row / column (own loops)."""
    n = Ad.shape[0]
    row = np.ones(n, dtype=bool)
    colm = np.ones(n, dtype=bool)
    for i in range(n):
        for j in range(n):
            if i != j and Ad[i, j] != 0:
                row[i] = False
                colm[j] = False
    return row, colm


# ---------------------------------------------------------------------------------------------------------------
# reference model of "what has been solved since the last update"
class SpanModel:
    def __init__(self, n):
        self.n = n
        self.reset(np.zeros(n, dtype=bool))

    def reset(self, both_decoupled):
        self.keep = ~both_decoupled            # dofs that are not solved by division in a correct implementation
        self.Q = {}                            # key -> orthonormal basis (n x r), keys: storage and (storage, trans)
        self.nstored = {"N": 0, "H": 0}
        self.ambiguous = {"N": False, "H": False}
        self.cplx = {"N": False, "H": False}
        self.dep_block = {"N": False, "H": False}
        self.tainted = False                   # a wrong answer was seen since the last update: no reuse claims any more

    def _dist(self, key, v):
        q = self.Q.get(key)
        nv = np.linalg.norm(v)
        if nv == 0:
            return 0.0, v
        r = v.astype(complex)
        if q is not None and q.shape[1] > 0:
            for _ in range(2):
                r = r - q @ (q.conj().T @ r)
        return float(np.linalg.norm(r) / nv), r

    def dist(self, storage, trans, v):
        """relative distance of v to the span of all / of the same-mode stored effective right-hand sides"""
        return self._dist(storage, v)[0], self._dist((storage, trans), v)[0]

    def add(self, storage, trans, v):
        if np.linalg.norm(v) == 0:
            return
        if np.iscomplexobj(v) and np.any(v.imag != 0):
            self.cplx[storage] = True
        for key in (storage, (storage, trans)):
            d, r = self._dist(key, v)
            # the same test in the coordinates a correct wrapper works in (decoupled dofs removed)
            if key == storage:
                dk, _ = self._dist_keep(storage, v)
                if INSPAN < d < NEWDIR or INSPAN < dk < NEWDIR:
                    self.ambiguous[storage] = True
            if d > INSPAN:
                q = self.Q.get(key)
                rn = (r / np.linalg.norm(r)).reshape(-1, 1)
                self.Q[key] = rn if q is None else np.hstack([q, rn])
                if key == storage:
                    self.nstored[storage] += 1

    def _dist_keep(self, storage, v):
        q = self.Q.get(storage)
        vk = v[self.keep].astype(complex)
        nv = np.linalg.norm(vk)
        if nv == 0:
            return 0.0, vk
        if q is None or q.shape[1] == 0:
            return 1.0, vk
        qk, _ = np.linalg.qr(q[self.keep, :])
        r = vk
        for _ in range(2):
            r = r - qk @ (qk.conj().T @ r)
        return float(np.linalg.norm(r) / nv), r


def _slug(tb):
    """innermost frame inside pymoto/solvers/solvers.py -> short stable text of the source line"""
    lines = tb.strip().splitlines()
    best = None
    for k, ln in enumerate(lines):
        if "solvers/solvers.py" in ln and k + 1 < len(lines):
            best = lines[k + 1].strip()
    if best is None:
        for k, ln in enumerate(lines):
            if "/pymoto/" in ln and k + 1 < len(lines):
                best = lines[k + 1].strip()
    return re.sub(r"[^A-Za-z0-9_]+", "_", best or "unknown")[:40].strip("_")


# ---------------------------------------------------------------------------------------------------------------
def check_case(case):
    import pymoto as pym
    S_ = pym.solvers

    class CountingSolver(S_.LinearSolver):
        """thin wrapper around the inner solver that counts solve() calls"""
        def __init__(self, inner):
            self.inner = inner
            self.calls = 0

        def update(self, A):
            self.inner.update(A)
            return self

        def solve(self, rhs, x0=None, trans='N'):
            self.calls += 1
            return self.inner.solve(rhs, x0=x0, trans=trans)

    rng = np.random.default_rng(case["payload_seed"])
    inner, mclass, n, storage = case["inner"], case["mclass"], case["n"], case["storage"]
    wtol = case["tol"] if not (case["inner"] == "cg" and case["tol"] == 1e-9) else None   # keep CG(1e-10) << wrapper tol
    tol = wtol if wtol is not None else 1e-7
    labels = [f"inner:{inner}", f"class:{mclass}", f"storage:{storage}", f"n:{n}"]
    V = []

    def new_matrix(how, Aprev):
        if how == "same":
            return Aprev.copy()
        if how == "scaled":
            return Aprev * 2.0
        if how == "special" and mclass in ("general", "pattern", "upper", "lower") and not any(case["hints"]):
            cand = make_matrix("herm_pd" if case["cplx"] else "spd", n, rng, case["cplx"], 100.0)
            if (not is_sym or (cand == cand.T).all()) and (not is_herm or (cand == cand.conj().T).all()):
                labels.append("update:more_special")
                return cand
        if how == "permuted" and mclass not in ("upper", "lower") and n >= 2:
            # the same matrix under a symmetric permutation of the dofs: same class, same size, same number of non-zeros,
            # but structurally decoupled dofs (if any) sit elsewhere
            pr = rng.permutation(n)
            labels.append("update:permuted")
            return np.ascontiguousarray(Aprev[np.ix_(pr, pr)])
        if how == "dtype_switch" and storage == "dense" and mclass in ("general", "pattern") and n >= 2:
            # a matrix of the same class with the other dtype (real <-> complex); general matrices are neither symmetric
            # nor Hermitian before and after, so the flags of the wrapper's life stay true
            cand = gen_matrix(mclass, n, not np.iscomplexobj(Aprev), case["pattern"], rng)
            if not (cand == cand.T).all() and not (cand == cand.conj().T).all() and not is_sym and not is_herm:
                labels.append("update:dtype_switched")
                return cand
        return gen_matrix(mclass, n, case["cplx"], case["pattern"], rng)

    Ad = gen_matrix(mclass, n, case["cplx"], case["pattern"], rng)
    cplxA = bool(np.iscomplexobj(Ad))
    labels.append("A:complex" if cplxA else "A:real")
    is_sym = bool((Ad == Ad.T).all())
    is_herm = bool((Ad == Ad.conj().T).all())
    labels.append("sym" if is_sym else "nosym")
    labels.append("herm" if is_herm else "noherm")
    allow_cplx = not (storage != "dense" and not cplxA and inner == "splu")

    def make_inner():
        if inner == "lu":
            return S_.SolverDenseLU()
        if inner == "qr":
            return S_.SolverDenseQR()
        if inner == "ldl":
            return S_.SolverDenseLDL()
        if inner == "chol":
            return S_.SolverDenseCholesky()
        if inner == "splu":
            return S_.SolverSparseLU()
        if inner == "diag":
            return S_.SolverDiagonal()
        if inner == "cg":
            pre = S_.DampedJacobi(w=0.8) if case["payload_seed"] % 2 else S_.Preconditioner()
            return S_.CG(preconditioner=pre, tol=1e-10)
        raise ValueError(inner)

    kw = {}
    if case["hints"][0]:
        kw["symmetric"] = is_sym
    if case["hints"][1]:
        kw["hermitian"] = is_herm
    if wtol is not None:
        kw["tol"] = wtol
        labels.append(f"tol:{wtol:g}")
    if any(case["hints"]):
        labels.append("hints")

    def make_wrapper(A, ctor):
        cs = CountingSolver(make_inner())
        if case.get("via_linsolve") and wtol is None and inner != "cg":
            # the wrapper LinSolve builds around a user-supplied solver (flags as LinSolve derives them from its own
            # hermitian= / symmetric= options); one response creates it, update() then empties its database again
            import pymoto as pym
            lkw = {k: v for k, v in kw.items() if k in ("symmetric", "hermitian")}
            mod = pym.LinSolve([pym.Signal("A", A), pym.Signal("b", np.ones(A.shape[0]))], solver=cs, **lkw)
            mod.response()
            w = mod.solver
            if not isinstance(w, S_.LDAWrapper):
                raise TypeError(f"LinSolve.solver is a {type(w).__name__}, not an LDAWrapper")
            w.update(A)
            cs.calls = 0
            labels.append("wrapper_from_linsolve")
            return w, cs
        if ctor:
            w = S_.LDAWrapper(cs, A=A, **kw)
        else:
            w = S_.LDAWrapper(cs, **kw)
            w.update(A)
        return w, cs

    A = to_storage(Ad, storage)
    try:
        wrapper, counter = make_wrapper(A, case["ctor"])
    except Exception as e:
        tb = traceback.format_exc()
        V.append(viol(f"C06:raises:update:{type(e).__name__}:{_slug(tb)}", f"{_desc(case)}: {tb[-600:]}"))
        return labels, V

    rowdec, coldec = decoupled(Ad)
    model = SpanModel(n)
    model.reset(rowdec & coldec)

    def shape_labels():
        half = (rowdec ^ coldec)
        if half.any():
            labels.append("half_decoupled_dof")
            if (coldec & ~rowdec).any():
                labels.append("col_decoupled_row_coupled")
            if (rowdec & ~coldec).any():
                labels.append("row_decoupled_col_coupled")
        if (rowdec & coldec).any() and not (rowdec & coldec).all():
            labels.append("some_fully_decoupled")
        if (rowdec & coldec).all():
            labels.append("diagonal_matrix")
        pat = Ad != 0
        if (pat != pat.T).any() and (rowdec.any() or coldec.any()):
            labels.append("nt:nonsym_decoupled")
    shape_labels()

    pool = []          # all right-hand-side columns generated so far (full vectors)
    nupd = 0
    stored_total = 0

    def build_col(cs):
        t = cs["t"]
        if t in ("ref", "combo", "conj", "re") and not pool:
            t = "new"
            cs = {"cplx": False}
        if t == "new":
            return rand_unit(rng, (n,), bool(cs.get("cplx")) and allow_cplx) * cs.get("scale", 1.0)
        if t == "zero":
            return np.zeros(n)
        if t == "unit":
            e = np.zeros(n)
            e[cs["i"] % n] = 1.0
            return e
        if t == "conj":
            return pool[cs["i"] % len(pool)].conj()
        if t == "re":
            return pool[cs["i"] % len(pool)].real.copy()

        def cf(c):
            return complex(c[0], c[1]) if (c[1] != 0 and allow_cplx) else float(c[0])
        if t == "ref":
            return cf(cs["coef"]) * pool[cs["i"] % len(pool)]
        if t == "combo":
            v = 0
            for r, c in zip(cs["refs"], cs["coefs"]):
                v = v + cf(c) * pool[r % len(pool)]
            return v
        raise ValueError(t)

    for iop, op in enumerate(case["ops"]):
        if op["op"] == "update":
            Ad_new = new_matrix(op["how"], Ad)
            labels.append("update:" + op["how"])
            Ad = Ad_new
            A_new = to_storage(Ad, storage)
            if op.get("inplace") and A is not None and A.dtype == A_new.dtype:
                if storage == "dense":
                    A[...] = A_new
                    labels.append("update:inplace")
                elif np.array_equal(A.indptr, A_new.indptr) and np.array_equal(A.indices, A_new.indices):
                    A.data[...] = A_new.data
                    labels.append("update:inplace")
                else:
                    A = A_new
            else:
                A = A_new
            # class contract: flags of the wrapper life stay true
            assert (not is_sym or (Ad == Ad.T).all()) and (not is_herm or (Ad == Ad.conj().T).all())
            try:
                wrapper.update(A)
            except Exception as e:
                tb = traceback.format_exc()
                V.append(viol(f"C06:raises:update:{type(e).__name__}:{_slug(tb)}", f"{_desc(case)}: {tb[-600:]}"))
                return sorted(set(labels)), V
            rowdec, coldec = decoupled(Ad)
            model.reset(rowdec & coldec)
            nupd += 1
            if nupd >= 2:
                labels.append("nt:updates2")
            continue

        # ---- solve -------------------------------------------------------------------------------------------
        tr = op["trans"]
        cols = []
        for cs in op["rhs"]["cols"]:          # references may point at earlier columns of the same block
            cols.append(np.asarray(build_col(cs)))
            if cs.get("scale", 1.0) == 1.0:
                # columns of extreme magnitude are solved but not offered for later reference: a later right-hand side
                # combining a 1e8-sized and an O(1) column loses 8 digits by cancellation in any arithmetic
                pool.append(cols[-1])
        B = np.stack(cols, axis=1)
        if op["rhs"].get("as_complex") and allow_cplx:
            B = B.astype(complex)
        b = B[:, 0].copy() if op["rhs"]["vec"] else B
        opA = Ad if tr == "N" else (Ad.T if tr == "T" else Ad.conj().T)
        rdt = np.result_type(Ad.dtype, b.dtype)
        x0 = None
        if op["x0"] != "none":
            xe = np.linalg.solve(opA, b).astype(rdt)
            if op["x0"] == "exact":
                x0 = xe
            elif op["x0"] == "zero":
                x0 = np.zeros(b.shape, dtype=rdt)
            else:
                pert = rand_unit(rng, b.shape, rdt.kind == "c").astype(rdt)
                x0 = xe + pert * (np.linalg.norm(xe, axis=0) / np.maximum(np.linalg.norm(pert, axis=0), 1e-300))
            labels.append("x0")
        labels += [f"trans:{tr}", "rhs:vec" if b.ndim == 1 else "rhs:block", "rhs:complex" if np.iscomplexobj(b) else "rhs:real"]

        # model: storage and effective right-hand side (documented table)
        if tr == "N":
            sto, conj = "N", False
        elif is_sym:
            sto, conj = "N", tr == "H"
        elif is_herm:
            sto, conj = "N", tr == "T"
        else:
            sto, conj = "H", tr == "T"
        Beff = B.conj() if conj else B
        dists = [model.dist(sto, tr, Beff[:, j]) for j in range(Beff.shape[1])]
        all_in = all(d[0] <= INSPAN for d in dists)
        same_in = all(d[1] <= INSPAN for d in dists)
        nonzero = any(np.linalg.norm(Beff[:, j]) > 0 for j in range(Beff.shape[1]))
        claim = all_in and not model.ambiguous[sto]
        if any(INSPAN < d[0] < NEWDIR for d in dists) or (all_in and model.ambiguous[sto]):
            labels.append("span_ambiguous")
        if all_in and nonzero:
            labels.append("inspan")
            if model.nstored[sto] >= 2:
                labels.append("nt:inspan_after2")
            if not same_in:
                labels.append("inspan_cross_mode")
        if model.nstored[sto] > 0 and x0 is not None:
            labels.append("x0_with_basis")
        if model.cplx[sto] and not np.iscomplexobj(b) and not cplxA:
            labels.append("real_after_complex")
        if not all_in:
            labels.append("new_direction")

        info = f"{_desc(case)} | op #{iop} trans={tr} rhs={op['rhs']} x0={op['x0']}"
        c0 = counter.calls
        try:
            x = wrapper.solve(b, x0=x0, trans=tr)
        except Exception as e:
            tb = traceback.format_exc()
            # (ii) the same call on a fresh wrapper
            try:
                w2, _ = make_wrapper(A, False)
                w2.solve(b, x0=x0, trans=tr)
                fresh_ok = True
            except Exception:
                fresh_ok = False
            if fresh_ok:
                V.append(viol(f"C06:raises:{type(e).__name__}:{_slug(tb)}",
                              f"raises after this history but succeeds on a fresh wrapper | {info} | {tb[-500:]}"))
            else:
                V.append(viol(f"C06:raises_also_fresh:{type(e).__name__}:{_slug(tb)}",
                              f"raises (also on a fresh wrapper) | {info} | {tb[-500:]}"))
            labels.append("raised")
            # recover: continue the history on a fresh wrapper for the current matrix
            try:
                wrapper, counter = make_wrapper(A, False)
            except Exception:
                return sorted(set(labels)), V
            model.reset(rowdec & coldec)
            continue

        x = np.asarray(x)
        if x.shape != b.shape:
            V.append(viol("C06:shape", f"x.shape={x.shape} b.shape={b.shape} | {info}"))
            model.reset(rowdec & coldec)
            wrapper, counter = make_wrapper(A, False)
            continue
        X = x.reshape(n, -1)
        R = np.linalg.norm(opA @ X - B, axis=0)
        nb = np.linalg.norm(B, axis=0)
        bad = ~np.isfinite(R) | (R > RES_FACTOR * tol * nb)
        if bad.any():
            model.tainted = True
            j = int(np.argmax(bad))
            # which dofs does a half-decoupled structure exist for (root cause classification only)
            half = (rowdec ^ coldec).any()
            V.append(viol("C06:residual:" + ("half_decoupled_dof" if half else "after_dependent_block" if model.dep_block[sto]
                                             else "after_update" if nupd else "plain"),
                          f"column {j}: ||op(A)x-b||/||b|| = {R[j] / max(nb[j], 1e-300):.3e} > {RES_FACTOR * tol:.1e} | A={Ad.tolist() if n <= 4 else '...'}"
                          f" b={B[:, j].tolist() if n <= 4 else '...'} x={X[:, j].tolist() if n <= 4 else '...'} | {info}"))
        # (iii) reuse
        if claim and counter.calls != c0 and not model.tainted:
            if model.dep_block[sto]:
                bk = "C06:reuse:after_dependent_block"
            elif model.cplx[sto] and not np.iscomplexobj(b):
                bk = "C06:reuse:real_rhs_complex_basis"
            elif (rowdec ^ coldec).any():
                bk = "C06:reuse:half_decoupled_dof"
            else:
                bk = "C06:reuse:same_mode" if same_in else "C06:reuse:cross_mode"
            V.append(viol(bk, f"rhs lies in the span (rel. distance {max(d[0] for d in dists):.1e}) of {model.nstored[sto]} right-hand "
                              f"sides solved since the last update, but the inner solver was called | {info}"))
        for j in range(Beff.shape[1]):
            dj = model.dist(sto, tr, Beff[:, j])[0]
            if dists[j][0] > INSPAN and dj < NEWDIR and np.linalg.norm(Beff[:, j]) > 0:
                # not in the stored span before this call, but (nearly) dependent on earlier columns of the same block
                model.dep_block[sto] = True
                labels.append("dependent_columns_in_block")
            model.add(sto, tr, Beff[:, j])
    return sorted(set(labels)), V


def _desc(case):
    return (f"inner={case['inner']} class={case['mclass']} n={case['n']} cplx={case['cplx']} storage={case['storage']} "
            f"pattern={case['pattern']} hints={case['hints']} tol={case['tol']} ctor={case['ctor']} seed={case['payload_seed']}")
