"""C10 — MMA iterates respect bounds and move limits and converge on convex problems.

Instrumentation is from outside: `pymoto.common.mma.subsolv` is replaced by a recording wrapper for the duration of
one case and `fn_callback` records the variable signals every iteration.  All oracles (bounds expansion, concatenation,
function values/gradients, KKT residual, optimum) are written here with plain numpy / scipy.optimize.
"""
import contextlib
import io
import math
import threading

import os
import numpy as np
from hypothesis import strategies as st

from pbt.harness import viol

PROPERTY_ID = "C10"
RULE = ("case = convex problem (objective separable reciprocal / diagonal quadratic / log-sum-exp(+quadratic); 1-3 "
        "constraints out of volume, linear (optionally on a subset of the signals), convex quadratic), 1-4 variable "
        "signals (python float, numpy scalar, arrays), the form of xmin/xmax/move (scalar, per signal, per variable), "
        "MMA version and asymptote parameters, maxit, payload seed for all coefficients. One case = one complete "
        "minimize_mma run, every iteration of which is checked. Non-trivial = at least 3 iterations and at least "
        "one bound or constraint active at the oracle optimum. Distinct = sha1 of the canonical case JSON.")
ASSUMPTIONS = [
    "variable signal states are python numbers, numpy scalars or 1-D arrays, float- or integer-typed at the start (2-D states are "
    "not documented)",
    "xmin < xmax per variable, start inside [xmin, xmax]; per-variable bounds are numpy arrays, per-signal bounds "
    "lists or arrays with one number per signal",
    "every generated problem has a strictly feasible point; MMA parameters a0, a, d keep their defaults, c = cCoef",
    "end of run is a finite-horizon claim (DESIGN section 4), made only for runs with >= 40 iterations, asymptote "
    "parameters near the defaults and an oracle optimum whose multipliers are < 0.1 c (exact penalty): constraints "
    "<= 1e-3 at the last iterate; distance to the optimum <= 5e-3 (reciprocal objective) / 5e-2 (diagonal quadratic) "
    "of the range and below the initial distance; no distance claim for log-sum-exp objectives (MMA without "
    "globalisation zig-zags there: up to 0.39 of the range after 50 iterations on the unchanged tree)",
    "trusted base: numpy, scipy.optimize.minimize(SLSQP) as candidate generator for the optimum (accepted only "
    "after this file's own KKT test), Hypothesis",
]

SIG_KINDS = ["pyfloat", "npfloat", "arr"]
RESP_KINDS = ["pyfloat", "npfloat", "arr0d", "arr1"]
BOUND_FORMS = ["scalar", "npscalar", "per_signal_list", "per_signal_arr", "per_var"]
MOVE_FORMS = ["scalar", "npscalar", "per_signal_list", "per_signal_arr", "per_var", "per_var_list"]


EXHAUSTIVE = False
EXHAUSTIVE_NOTE = ("fixed list of 16 (quick) / 32 (thorough) runs with the *default* asymptote parameters on diagonal "
                   "quadratic objectives (4 variables, one volume constraint, move 0.2 and 1.0, 50 iterations); for these "
                   "the distance claim is the tight one measured on the unchanged tree: every coordinate within 0.03 of "
                   "the range of its optimum in the last 8 iterates (measured maximum 0.0044)")


def enumerate_cases(tier):
    """Default-parameter runs: convergence relies on the asymptotes contracting when a variable oscillates."""
    out = []
    for mv in (0.2, 1.0):
        for ps in range(8 if tier == "quick" else 16):
            out.append({"sigs": [{"kind": "arr", "size": 4}], "obj": "quad", "cons": [{"type": "vol", "subset": False}],
                        "xmin_form": "scalar", "xmax_form": "scalar", "move_form": "scalar", "version": "default",
                        "standard": True, "epsimin": 1e-7, "tolx": 0.0, "resp_kinds": ["pyfloat", "pyfloat"],
                        "topo": "direct", "start": "random", "int_start": "none", "verbosity": 0, "var_form": "signals",
                        "zero_bound": "none", "pre_sens": False, "payload_seed": ps, "asyinit": 0.5, "asyincr": 1.2,
                        "asydecr": 0.7, "albefa": 0.1, "move": mv, "maxit": 50, "asybound": "default",
                        "fixed_default": True})
    return out


def budget(tier):
    return {"examples": 220 if tier == "quick" else 3000, "shards": 16, "shrink": 20 if tier == "quick" else 100}


def strategy(tier):
    big = tier != "quick"

    @st.composite
    def case(draw):
        nsig = draw(st.integers(1, 4))
        sigs = []
        for _ in range(nsig):
            k = draw(st.sampled_from(SIG_KINDS))
            sigs.append({"kind": k, "size": draw(st.integers(1, 14 if big else 10)) if k == "arr" else 1})
        ncon = draw(st.integers(1, 3))
        cons = [{"type": draw(st.sampled_from(["vol", "lin", "quadc"])), "subset": draw(st.booleans())}
                for _ in range(ncon)]
        standard = draw(st.booleans())  # parameters near the defaults -> convergence claim possible
        if standard:
            par = {"asyinit": draw(st.sampled_from([0.5, 0.4, 0.6])), "asyincr": draw(st.sampled_from([1.2, 1.15, 1.3])),
                   "asydecr": draw(st.sampled_from([0.7, 0.65, 0.75])), "albefa": draw(st.sampled_from([0.1, 0.05, 0.2])),
                   "move": draw(st.sampled_from([0.1, 0.2, 0.3, 0.5, 1.0])),
                   "maxit": draw(st.integers(40, 60)),
                   # bound on the asymptote distance: [1/asybound^2, asybound] times the range (MMA keyword, default 10)
                   "asybound": draw(st.sampled_from(["default", "default", 10.0, 20.0]))}
        else:
            par = {"asyinit": draw(st.floats(0.05, 1.5)), "asyincr": draw(st.floats(1.0, 1.6)),
                   "asydecr": draw(st.floats(0.4, 1.0)), "albefa": draw(st.floats(0.01, 0.7)),
                   "move": draw(st.floats(0.01, 1.0)),
                   "maxit": draw(st.sampled_from([1, 2, 3, 5, 8, 12, 20, 30, 45, 60])),
                   "asybound": draw(st.sampled_from(["default", "default", 3.0, 5.0, 20.0, 50.0]))}
        c = {"sigs": sigs, "obj": draw(st.sampled_from(["recip", "quad", "lse"])), "cons": cons,
             "xmin_form": draw(st.sampled_from(BOUND_FORMS)), "xmax_form": draw(st.sampled_from(BOUND_FORMS)),
             "move_form": draw(st.sampled_from(MOVE_FORMS)),
             "version": draw(st.sampled_from(["Svanberg2007", "Svanberg1987", "default"])),
             "standard": standard,
             "epsimin": draw(st.sampled_from([1e-10, 1e-9, 1e-8, 1e-7])),
             "tolx": draw(st.sampled_from([0.0, 1e-6, 1e-4])),
             "resp_kinds": [draw(st.sampled_from(RESP_KINDS)) for _ in range(ncon + 1)],
             "topo": draw(st.sampled_from(["direct", "concat"])),
             "start": draw(st.sampled_from(["random", "feasible", "on_bound"])),
             # integer-typed initial states (np.ones(n, dtype=int), a python 1) for the first or for all variable signals
             "int_start": draw(st.sampled_from(["none", "none", "none", "first", "all", "all"])),
             "verbosity": draw(st.sampled_from([0, 0, 0, 1, 2, 3, 4])),
             # variables as plain Signals, as basic slices of one design Signal (array kinds only) or as Signals with a
             # pre-allocated sensitivity buffer (cleared in place by reset())
             "var_form": draw(st.sampled_from(["signals", "signals", "slices", "prealloc", "fancy"])),
             # a bound that is exactly zero (densities in [0, 1], or variables in [-w, 0]); with start=on_bound some
             # variables then start exactly at 0.0 (not for the reciprocal objective, which needs x > 0)
             "zero_bound": draw(st.sampled_from(["none", "none", "xmin0", "xmin0", "xmax0"])),
             "pre_sens": draw(st.sampled_from([False, False, True])),   # sensitivities left in the network beforehand
             "payload_seed": draw(st.integers(0, 2 ** 31 - 1))}
        c.update(par)
        if c["var_form"] in ("slices", "fancy"):
            # slices of one design field: every variable is an array (scalar kinds would silently fall back to "signals")
            for sg in c["sigs"]:
                if sg["kind"] != "arr":
                    sg["kind"], sg["size"] = "arr", draw(st.integers(1, 6))
        # the array given as per-variable xmin is also the initial state of the (single, array) variable signal: start
        # on the lower bound with one shared array object (x = xmin.copy() forgotten)
        c["alias_bound"] = draw(st.sampled_from([False, False, False, True]))
        return c

    return case()


def nontrivial(labels):
    return "iters>=3" in labels and "active_at_optimum" in labels


# ----------------------------------------------------------------------------------------------------------------
# convex functions with exact gradients (harness-owned; also used inside the user-defined modules)
class FRecip:
    """s * sum(c / x), c > 0, on x > 0"""
    strictly_convex = True

    def __init__(self, c, s):
        self.c, self.s = c, s

    def val(self, x):
        return float(self.s * np.sum(self.c / x))

    def grad(self, x):
        return -self.s * self.c / x ** 2


class FQuad:
    """s * (0.5 * sum(d (x-t)^2) - r), d >= 0"""

    def __init__(self, d, t, r, s):
        self.d, self.t, self.r, self.s = d, t, r, s
        self.strictly_convex = bool(np.all(d > 0))

    def val(self, x):
        return float(self.s * (0.5 * np.sum(self.d * (x - self.t) ** 2) - self.r))

    def grad(self, x):
        return self.s * self.d * (x - self.t)


class FLin:
    """s * (a.x - b)"""
    strictly_convex = False

    def __init__(self, a, b, s):
        self.a, self.b, self.s = a, b, s

    def val(self, x):
        return float(self.s * (np.dot(self.a, x) - self.b))

    def grad(self, x):
        return self.s * self.a.copy()


class FLse:
    """s * (log sum_j exp(A_j.x + b_j) + 0.5 mu |x - t|^2 + off)"""

    def __init__(self, A, b, mu, t, off, s):
        self.A, self.b, self.mu, self.t, self.off, self.s = A, b, mu, t, off, s
        self.strictly_convex = mu > 0

    def _z(self, x):
        z = self.A @ x + self.b
        zm = z.max()
        e = np.exp(z - zm)
        return zm, e

    def val(self, x):
        zm, e = self._z(x)
        return float(self.s * (zm + math.log(e.sum()) + 0.5 * self.mu * np.sum((x - self.t) ** 2) + self.off))

    def grad(self, x):
        zm, e = self._z(x)
        return self.s * (self.A.T @ (e / e.sum()) + self.mu * (x - self.t))


def _expand(form, base, sizes, rng, lo_f, hi_f, positive_gap=None):
    """Return (value to pass to pymoto, per-variable oracle array). `base` is the central number; per-signal and
    per-variable entries are base * U(lo_f, hi_f)."""
    n, k = int(np.sum(sizes)), len(sizes)
    if form in ("scalar", "npscalar"):
        full = np.full(n, float(base))
        return (float(base) if form == "scalar" else np.float64(base)), full
    if form.startswith("per_signal"):
        vals = base * rng.uniform(lo_f, hi_f, k)
        full = np.concatenate([np.full(sz, v) for sz, v in zip(sizes, vals)])
        return ([float(v) for v in vals] if form.endswith("list") else np.array(vals)), full
    vals = base * rng.uniform(lo_f, hi_f, n)
    return (vals.copy() if form == "per_var" else [float(v) for v in vals]), vals.copy()


def build_problem(case):
    rng = np.random.default_rng(case["payload_seed"])
    sizes = [s["size"] for s in case["sigs"]]
    n, k = int(np.sum(sizes)), len(sizes)
    cum = np.concatenate([[0], np.cumsum(sizes)]).astype(int)
    recip = case["obj"] == "recip"
    # --- bounds: xmin = centre +- spread (additive so the forms are independent), widths > 0
    scale = float(np.exp(rng.uniform(np.log(0.3), np.log(3.0))))
    lo0 = scale * (rng.uniform(0.05, 0.5) if recip else rng.uniform(-1.5, 1.0))
    width0 = scale * rng.uniform(0.6, 2.0)

    def addform(form, base, spread):
        if form in ("scalar", "npscalar"):
            return (float(base) if form == "scalar" else np.float64(base)), np.full(n, float(base))
        if form.startswith("per_signal"):
            vals = base + spread * rng.uniform(0, 1, k)
            full = np.concatenate([np.full(sz, v) for sz, v in zip(sizes, vals)])
            return ([float(v) for v in vals] if form.endswith("list") else np.array(vals)), full
        vals = base + spread * rng.uniform(0, 1, n)
        return vals.copy(), vals.copy()

    hi0 = lo0 + 0.4 * width0 + width0 * 0.5
    zb = case.get("zero_bound", "none")
    if zb == "xmin0" and not recip:
        lo0, hi0 = 0.0, hi0 - lo0
    elif zb == "xmax0" and not recip:
        lo0, hi0 = lo0 - hi0, 0.0
    xmin_arg, xmin = addform(case["xmin_form"], lo0, 0.4 * width0)
    xmax_arg, xmax = addform(case["xmax_form"], hi0, 0.8 * width0)
    dx = xmax - xmin
    assert np.all(dx > 0)
    move_arg, move = _expand(case["move_form"], case["move"], sizes, rng, 0.6, 1.0)
    # --- reference (strictly feasible) point and start
    xref = xmin + rng.uniform(0.15, 0.85, n) * dx
    if case["start"] == "feasible":
        x0 = xref.copy()
    else:
        x0 = xmin + rng.uniform(0.02, 0.98, n) * dx
        if case["start"] == "on_bound":
            pick = rng.random(n)
            x0 = np.where(pick < 0.3, xmin, np.where(pick > 0.7, xmax, x0))
    alias_bound = bool(case.get("alias_bound") and k == 1 and case["sigs"][0]["kind"] == "arr" and case["xmin_form"] == "per_var"
                       and case.get("var_form", "signals") in ("signals", "prealloc") and case.get("int_start", "none") == "none")
    if alias_bound:
        x0 = xmin.copy()
    int_sigs = []
    if case.get("int_start", "none") != "none" and case.get("var_form", "signals") in ("signals", "prealloc"):
        for i in range(k if case["int_start"] == "all" else 1):
            sl = slice(int(cum[i]), int(cum[i + 1]))
            cand = np.ceil(xmin[sl])
            if np.all(cand <= xmax[sl]):           # an integer inside every box of this signal
                x0[sl] = cand
                int_sigs.append(i)
    # --- objective
    if case["obj"] == "recip":
        c = np.exp(rng.uniform(np.log(0.2), np.log(5.0), n))
        f0 = FRecip(c, 1.0)
    elif case["obj"] == "quad":
        d = np.exp(rng.uniform(np.log(0.3), np.log(3.0), n))
        t = xmin + rng.uniform(-0.6, 1.6, n) * dx
        f0 = FQuad(d, t, -rng.uniform(0.0, 1.0) * np.sum(d * dx ** 2), 1.0)
    else:
        nt = int(rng.integers(2, 6))
        A = rng.standard_normal((nt, n)) / np.mean(dx)
        b = rng.standard_normal(nt)
        b -= A @ (xmin + 0.5 * dx)
        f0 = FLse(A, b, float(rng.choice([0.0, 0.3, 1.0])) / np.mean(dx) ** 2, xmin + rng.uniform(0, 1, n) * dx,
                  float(rng.uniform(1.0, 3.0)), 1.0)
    # scale the objective: |grad| * dx of order 1..30 (pyMOTO's examples scale the objective to 1..100)
    g = f0.grad(x0)
    f0.s = float(rng.uniform(1.0, 30.0) / max(np.max(np.abs(g) * dx), 1e-3))
    # --- constraints, each strictly satisfied at xref
    cons, subsets = [], []
    for cd in case["cons"]:
        mask = np.ones(n, dtype=bool)
        sub = list(range(k))
        if cd["subset"] and k > 1:
            nsub = int(rng.integers(1, k))
            sub = sorted(rng.choice(k, nsub, replace=False).tolist())
            mask[:] = False
            for i in sub:
                mask[cum[i]:cum[i + 1]] = True
        margin = rng.uniform(0.02, 0.35)
        sfac = float(np.exp(rng.uniform(np.log(0.3), np.log(10.0))))
        if cd["type"] in ("vol", "lin"):
            if cd["type"] == "vol":
                a = mask.astype(float)
            else:
                a = rng.uniform(0.2, 2.0, n) * mask
                if case["obj"] != "recip" or rng.random() < 0.3:
                    a = a * np.where(rng.random(n) < 0.3, -1.0, 1.0)
            rng_g = float(np.sum(np.abs(a) * dx))
            bnd = float(np.dot(a, xref) + margin * rng_g)
            cons.append(FLin(a, bnd, sfac / rng_g))
        else:
            e = np.exp(rng.uniform(np.log(0.3), np.log(3.0), n)) * mask
            u = xmin + rng.uniform(-0.3, 1.3, n) * dx
            raw = 0.5 * np.sum(e * (xref - u) ** 2)
            rng_g = float(0.5 * np.sum(e * dx ** 2))
            r = float(raw + margin * rng_g)
            cons.append(FQuad(e, u, r, sfac / rng_g))
        subsets.append(sub)
    kw = {"xmin": xmin_arg, "xmax": xmax_arg, "move": move_arg, "maxit": case["maxit"], "tolx": case["tolx"],
          "epsimin": case["epsimin"], "asyinit": case["asyinit"], "asyincr": case["asyincr"],
          "asydecr": case["asydecr"], "albefa": case["albefa"], "verbosity": case["verbosity"]}
    if case["version"] != "default":
        kw["mmaversion"] = case["version"]
    if case.get("asybound", "default") != "default":
        kw["asybound"] = case["asybound"]
    return {"alias_bound": alias_bound, "int_sigs": int_sigs, "n": n, "k": k, "sizes": sizes, "cum": cum, "xmin": xmin, "xmax": xmax, "move": move, "x0": x0,
            "xref": xref, "f": [f0] + cons, "subsets": [list(range(k))] + subsets, "kw": kw}


# ----------------------------------------------------------------------------------------------------------------
# user-defined modules (created lazily: pymoto is imported by the harness with the tree under test on sys.path)
_MODS = {}


def _modules():
    if _MODS:
        return _MODS
    import pymoto as pym

    def to_kind(v, kind):
        v = float(v)
        if kind == "pyfloat":
            return v
        if kind == "npfloat":
            return np.float64(v)
        if kind == "arr0d":
            return np.array(v)
        return np.array([v])

    class C10Func(pym.Module):
        """scalar response fun(concat(inputs)) with exact gradient; fun sees the full design vector through `idx`"""

        def _prepare(self, fun=None, idx=None, n=None, xfill=None, out_kind="npfloat"):
            self.fun, self.idx, self.n, self.out_kind = fun, idx, n, out_kind
            self.xfill = xfill

        def _response(self, *xs):
            self.shapes = [np.shape(x) for x in xs]
            x = self.xfill.copy()  # entries outside idx have zero coefficients in fun; any finite filler works
            x[self.idx] = np.concatenate([np.atleast_1d(np.asarray(v, dtype=float)).ravel() for v in xs])
            self.x = x
            return to_kind(self.fun.val(x), self.out_kind)

        def _sensitivity(self, df):
            w = float(np.asarray(df).reshape(-1)[0])
            g = w * self.fun.grad(self.x)[self.idx]
            out, p = [], 0
            for shp in self.shapes:
                sz = int(np.prod(shp)) if len(shp) else 1
                piece = g[p:p + sz]
                out.append(np.float64(piece[0]) if len(shp) == 0 else piece.reshape(shp).copy())
                p += sz
            return out

    class C10Concat(pym.Module):
        def _response(self, *xs):
            self.shapes = [np.shape(x) for x in xs]
            return np.concatenate([np.atleast_1d(np.asarray(v, dtype=float)).ravel() for v in xs])

        def _sensitivity(self, dz):
            out, p = [], 0
            for shp in self.shapes:
                sz = int(np.prod(shp)) if len(shp) else 1
                piece = dz[p:p + sz]
                out.append(np.float64(piece[0]) if len(shp) == 0 else piece.reshape(shp).copy())
                p += sz
            return out

    _MODS.update({"pym": pym, "Func": C10Func, "Concat": C10Concat})
    return _MODS


def _make_state(kind, vals):
    if kind == "pyfloat":
        return float(vals[0])
    if kind == "npfloat":
        return np.float64(vals[0])
    return np.array(vals, dtype=float)


def _flat(states):
    return np.concatenate([np.atleast_1d(np.asarray(s, dtype=float)).ravel() for s in states])


# ----------------------------------------------------------------------------------------------------------------
# oracle optimum
def _kkt_multipliers(prob, x, act_tol):
    """Least-squares multipliers of the active constraints/bounds at x; returns (stationarity residual, lam)."""
    from scipy.optimize import nnls
    f = prob["f"]
    dx = prob["xmax"] - prob["xmin"]
    g0 = f[0].grad(x)
    cols, kinds = [], []
    for i in range(1, len(f)):
        if f[i].val(x) > -act_tol:
            cols.append(f[i].grad(x))
            kinds.append(i)
    for j in range(prob["n"]):
        if x[j] - prob["xmin"][j] <= act_tol * dx[j]:
            e = np.zeros(prob["n"])
            e[j] = -1.0
            cols.append(e)
            kinds.append(0)
        if prob["xmax"][j] - x[j] <= act_tol * dx[j]:
            e = np.zeros(prob["n"])
            e[j] = 1.0
            cols.append(e)
            kinds.append(0)
    lam = np.zeros(len(f) - 1)
    if not cols:
        return float(np.max(np.abs(g0 * dx))), lam, 0
    M = np.array(cols).T * dx[:, None]  # scale rows by dx: residual in units of objective change over the range
    sol, _ = nnls(M, -g0 * dx)
    res = M @ sol + g0 * dx
    for s, kd in zip(sol, kinds):
        if kd > 0:
            lam[kd - 1] = s
    return float(np.max(np.abs(res))), lam, len(cols)


def _waterfill(prob):
    """Exact optimum for separable objective (recip / quad) and ONE linear constraint: x_i(l) is monotone in the
    multiplier l >= 0, bisection on a.x(l) = b. Returns x or None when not applicable."""
    f = prob["f"]
    if len(f) != 2 or not isinstance(f[1], FLin) or isinstance(f[0], FLse):
        return None
    lo, hi = prob["xmin"], prob["xmax"]
    a, b = f[1].a, f[1].b
    if isinstance(f[0], FRecip):
        c = f[0].c * f[0].s

        def xof(l):
            with np.errstate(divide="ignore", invalid="ignore"):
                xs = np.where(a * l > 0, np.sqrt(c / np.where(a * l > 0, a * l, 1.0)), np.inf)
            return np.clip(xs, lo, hi)
    else:
        d, t = f[0].d * f[0].s, f[0].t

        def xof(l):
            return np.clip(t - l * a / d, lo, hi)
    if np.dot(a, xof(0.0)) <= b:
        return xof(0.0)
    l1, l2 = 0.0, 1.0
    while np.dot(a, xof(l2)) > b:
        l2 *= 2
        if l2 > 1e30:
            return None
    for _ in range(300):
        lm = 0.5 * (l1 + l2)
        if np.dot(a, xof(lm)) > b:
            l1 = lm
        else:
            l2 = lm
    return xof(l2)


def oracle_optimum(prob):
    """Returns dict(x, fval, lam, kkt, unique) or None when no point passing this file's KKT test was found."""
    from scipy.optimize import minimize
    f = prob["f"]
    lo, hi = prob["xmin"], prob["xmax"]
    dx = hi - lo
    cands = []
    xw = _waterfill(prob)
    if xw is not None:
        cands.append(("waterfill", xw))
    cons = [{"type": "ineq", "fun": (lambda x, fi=fi: -fi.val(x)), "jac": (lambda x, fi=fi: -fi.grad(x))}
            for fi in f[1:]]
    for start in (prob["xref"], 0.5 * (lo + hi)):
        try:
            r = minimize(f[0].val, start, jac=f[0].grad, bounds=list(zip(lo, hi)), constraints=cons, method="SLSQP",
                         options={"ftol": 1e-15, "maxiter": 500})
            cands.append(("slsqp", np.clip(r.x, lo, hi)))
        except Exception:
            pass
    best = None
    fscale = max(1.0, abs(f[0].val(prob["xref"])))
    for name, x in cands:
        gmax = max(fi.val(x) for fi in f[1:])
        if gmax > 1e-9:
            continue
        res, lam, nact = _kkt_multipliers(prob, x, 1e-7)
        if res <= 1e-6 * fscale and (best is None or res < best["kkt"]):
            best = {"x": x, "fval": f[0].val(x), "lam": lam, "kkt": res, "src": name, "nactive": nact}
    if best is not None:
        best["unique"] = bool(f[0].strictly_convex)
    return best


# ----------------------------------------------------------------------------------------------------------------
def own_kkt_residual(x, y, z, lam, xsi, eta, mu, zet, s, low, upp, alfa, beta, P, Q, a0, a, b, c, d):
    """Max-norm of the KKT system (epsilon = 0) of
         min  f~_0(x) + a0 z + sum_i (c_i y_i + d_i y_i^2 / 2)
         s.t. f~_i(x) - a_i z - y_i <= b_i, alfa <= x <= beta, y >= 0, z >= 0,
       f~_i(x) = sum_j P_ij/(upp_j - x_j) + Q_ij/(x_j - low_j).  Written with explicit loops on purpose."""
    m, n = len(b), len(x)
    r = 0.0
    for j in range(n):
        dL = P[0, j] / (upp[j] - x[j]) ** 2 - Q[0, j] / (x[j] - low[j]) ** 2
        for i in range(m):
            dL += lam[i] * (P[i + 1, j] / (upp[j] - x[j]) ** 2 - Q[i + 1, j] / (x[j] - low[j]) ** 2)
        r = max(r, abs(dL - xsi[j] + eta[j]), abs(xsi[j] * (x[j] - alfa[j])), abs(eta[j] * (beta[j] - x[j])))
    sz = a0 - zet
    for i in range(m):
        fi = 0.0
        for j in range(n):
            fi += P[i + 1, j] / (upp[j] - x[j]) + Q[i + 1, j] / (x[j] - low[j])
        r = max(r, abs(c[i] + d[i] * y[i] - lam[i] - mu[i]), abs(fi - a[i] * z - y[i] + s[i] - b[i]),
                abs(mu[i] * y[i]), abs(lam[i] * s[i]))
        sz -= lam[i] * a[i]
    return max(r, abs(sz), abs(zet * z))


class _AbortRun(Exception):
    pass


def _ill_posed(call):
    try:
        arrs = [call[k_] for k_ in ("low", "upp", "alfa", "beta", "P", "Q", "b")]
        return bool(any(not np.all(np.isfinite(v)) for v in arrs) or not np.all(call["alfa"] <= call["beta"])
                    or not np.all(call["low"] < call["alfa"]) or not np.all(call["beta"] < call["upp"]))
    except ValueError:  # shapes that do not even broadcast
        return True


def run_mma(case, prob, rec):
    """Build the network, run minimize_mma with the recording wrappers. Everything in here that can raise is pyMOTO
    or the (trivial) modules above."""
    M = _modules()
    pym = M["pym"]
    import pymoto.common.mma as mmamod
    cum = prob["cum"]
    form = case.get("var_form", "signals")
    if form in ("slices", "fancy") and any(sg["kind"] != "arr" for sg in case["sigs"]):
        form = "signals"
    rec["var_form"] = form
    if form == "fancy":
        # variables selected from a larger field by index arrays (their state getter returns copies)
        rngf = np.random.default_rng([case["payload_seed"], 5])
        ntot = prob["n"] + 3
        perm = rngf.permutation(ntot)
        field = np.array(rngf.uniform(0.2, 0.8, ntot))
        field[perm[:prob["n"]]] = prob["x0"]
        base = pym.Signal("field", state=field)
        variables = [base[perm[int(cum[i]):int(cum[i + 1])]] for i in range(len(case["sigs"]))]
    elif form == "slices":
        base = pym.Signal("xall", state=np.array(prob["x0"], dtype=float))
        variables = [base[int(cum[i]):int(cum[i + 1])] for i in range(len(case["sigs"]))]
    else:
        variables = []
        for i, sg in enumerate(case["sigs"]):
            st0 = _make_state(sg["kind"], prob["x0"][cum[i]:cum[i + 1]])
            if prob.get("alias_bound"):
                st0 = prob["kw"]["xmin"]            # the very array object that is passed as xmin
            if i in prob.get("int_sigs", ()):
                st0 = st0.astype(int) if isinstance(st0, np.ndarray) else (np.int64(st0) if isinstance(st0, np.floating) else int(st0))
            how = [None, None, None, "F", "T"][case["payload_seed"] % 5]
            if (form == "signals" and how and not prob.get("alias_bound") and isinstance(st0, np.ndarray)
                    and st0.ndim == 1):
                # a design held as a 2-D field in Fortran order or as a transposed view: the design vector is its
                # row-major flattening whatever the memory layout (derived from the payload seed: no extra draw)
                r = next((d for d in (2, 3, 4, 5) if st0.size % d == 0 and st0.size // d >= 2), None)
                if r is not None:
                    st0 = (np.asfortranarray(st0.reshape(r, -1)) if how == "F"
                           else np.ascontiguousarray(st0.reshape(r, -1).T).T)
                    rec["layout2d"] = True
            if form == "prealloc" and isinstance(st0, np.ndarray) and st0.ndim >= 1:
                variables.append(pym.Signal(f"x{i}", state=st0, sensitivity=np.zeros(st0.shape)))
            else:
                variables.append(pym.Signal(f"x{i}", state=st0))
    net = pym.Network()
    n = prob["n"]
    responses = []
    if case["topo"] == "concat":
        sz = net.append(M["Concat"](variables))
        for fi, kind in zip(prob["f"], case["resp_kinds"]):
            responses.append(net.append(M["Func"](sz, fun=fi, idx=np.arange(n), n=n, xfill=prob["xref"], out_kind=kind)))
    else:
        for fi, sub, kind in zip(prob["f"], prob["subsets"], case["resp_kinds"]):
            idx = np.concatenate([np.arange(cum[i], cum[i + 1]) for i in sub])
            responses.append(net.append(M["Func"]([variables[i] for i in sub], fun=fi, idx=idx, n=n,
                                                  xfill=prob["xref"], out_kind=kind)))
    for i, r in enumerate(responses):
        r.tag = f"g{i}"
    rec["variables"] = variables

    orig = mmamod.subsolv

    def recording_subsolv(epsimin, low, upp, alfa, beta, P, Q, a0, a, b, c, d, x0=None):
        call = {"epsimin": float(epsimin), "low": np.array(low, dtype=float), "upp": np.array(upp, dtype=float),
                "alfa": np.array(alfa, dtype=float), "beta": np.array(beta, dtype=float),
                "P": np.array(P, dtype=float), "Q": np.array(Q, dtype=float), "a0": float(a0),
                "a": np.array(a, dtype=float), "b": np.array(b, dtype=float), "c": np.array(c, dtype=float),
                "d": np.array(d, dtype=float), "x0": None if x0 is None else np.array(x0, dtype=float),
                "ncb": len(rec["cb"])}
        rec["calls"].append(call)
        if _ill_posed(call):
            # not a well-posed subproblem (reported by check_case from the recorded arguments). The interior-point
            # loop would grind through 400 x 400 x 10 NaN iterations per call, so the run is abandoned here.
            raise _AbortRun()
        buf = io.StringIO()
        with contextlib.redirect_stdout(buf):
            out = orig(epsimin, low, upp, alfa, beta, P, Q, a0, a, b, c, d, x0=x0)
        msg = buf.getvalue()
        call["gave_up"] = "MMA Subsolver" in msg  # the solver's own message when it hits its iteration cap
        # barrier levels (epsi) at which it gave up: "MMA Subsolver: itt = 400, at epsi = 1.000e-06"
        import re
        eps_levels = [float(v) for v in re.findall(r"at epsi = ([0-9.eE+-]+)", msg)]
        call["gave_up_epsi_max"] = max(eps_levels) if eps_levels else None
        call["ret"] = [np.array(o, dtype=float) for o in out]
        if call["gave_up"] and (call["gave_up_epsi_max"] or 0.0) >= 1e-2:
            # the Newton loop already stalled at the first barrier levels: the returned point is far from optimal (this
            # call is reported from the record) and every further call would grind through 400-iteration loops again
            raise _AbortRun()
        return out

    def callback():
        rec["cb"].append([(type(s.state).__name__, np.shape(s.state), np.array(s.state, dtype=float).copy())
                          for s in variables])

    mmamod.subsolv = recording_subsolv
    try:
        with contextlib.redirect_stdout(io.StringIO()):
            if case.get("pre_sens"):
                # the network was evaluated and back-propagated by the user before the optimisation starts (the examples'
                # own idiom) and still holds those sensitivities: the optimiser must start from a clean slate
                net.response()
                responses[0].sensitivity = 1.0 if np.ndim(responses[0].state) == 0 else np.ones_like(responses[0].state)
                net.sensitivity()
                rec["pre_sens"] = True
            pym.minimize_mma(net, variables, responses, fn_callback=callback, **prob["kw"])
    except _AbortRun:
        rec["aborted"] = True
    finally:
        mmamod.subsolv = orig
    rec["final"] = [np.array(s.state, dtype=float).copy() for s in variables]



def _in_thread(fn, *args):
    """Run fn in a fresh thread: pyMOTO calls inspect.stack() for every Signal/Module it constructs, whose cost is
    proportional to the stack depth (40 ms under Hypothesis' deep stack). Results are identical; exceptions re-raised."""
    box = {}

    def target():
        try:
            box["r"] = fn(*args)
        except BaseException as e:  # re-raised in the caller below
            box["e"] = e

    t = threading.Thread(target=target)
    t.start()
    t.join()
    if "e" in box:
        raise box["e"]
    return box.get("r")


def check_case(case, _debug=None):
    prob = build_problem(case)
    n, k, m = prob["n"], prob["k"], len(prob["f"]) - 1
    xmin, xmax, move = prob["xmin"], prob["xmax"], prob["move"]
    dx = xmax - xmin
    labels = [f"obj:{case['obj']}", f"nsig:{k}", f"ncon:{m}", f"version:{case['version']}",
              f"xmin:{case['xmin_form']}", f"xmax:{case['xmax_form']}", f"move:{case['move_form']}",
              f"topo:{case['topo']}", "standard" if case["standard"] else "wild"]
    labels += sorted({f"sig:{s['kind']}" for s in case["sigs"]})
    labels += sorted({f"con:{c['type']}" for c in case["cons"]})
    if any(c["subset"] for c in case["cons"]) and k > 1 and case["topo"] == "direct":
        labels.append("partial_dependence")
    labels.append("n<=3" if n <= 3 else ("n<=12" if n <= 12 else "n>12"))
    if case.get("asybound", "default") not in ("default", 10.0):
        labels.append("asybound_not_default")
    if prob.get("alias_bound"):
        labels.append("initial_state_is_the_xmin_array")
    if prob.get("int_sigs"):
        labels.append("integer_initial_state" + ("_all" if len(prob["int_sigs"]) == k else "_mixed_with_float"))
    V = []
    seen = set()

    def bad(bucket, detail, **extra):
        if bucket not in seen:  # one report per bucket and case
            seen.add(bucket)
            V.append(viol(f"C10:{bucket}", detail, **extra))

    rec = {"cb": [], "calls": []}
    try:
        _in_thread(run_mma, case, prob, rec)
    except Exception as e:
        import traceback
        tb = traceback.extract_tb(e.__traceback__)
        where = next((f"{fr.name}" for fr in reversed(tb) if "/pymoto/" in fr.filename), "unknown")
        bad(f"raises:{where}:{type(e).__name__}", traceback.format_exc()[-900:])
    cbs, calls = rec["cb"], rec["calls"]
    labels.append("variables:" + rec.get("var_form", "signals"))
    if rec.get("layout2d"):
        labels.append("layout:2d_non_c_contiguous")
    if rec.get("pre_sens"):
        labels.append("sensitivities_left_before_start")
    if np.any(prob["x0"] == 0.0):
        labels.append("start_exactly_zero")
    if np.any(xmin == 0.0) or np.any(xmax == 0.0):
        labels.append("bound_exactly_zero")
    niter = len(calls)
    labels.append("iters>=3" if niter >= 3 else "iters<3")
    if len(cbs) == 0:
        return labels, V
    req_eps = case["epsimin"] * math.sqrt(m + n)
    X = [_flat([st_[2] for st_ in cb]) for cb in cbs]
    # ---- initial read: the first evaluated design is the start
    if X[0].shape != (n,) or not np.array_equal(X[0], prob["x0"]):
        bad("writeback:initial", f"first evaluated design {X[0]} != start {prob['x0']}")
    worst = {"val": 0.0, "grad": 0.0, "kkt": 0.0}
    for it, cb in enumerate(cbs):
        x = X[it]
        if x.shape != (n,):
            bad("writeback:size", f"it {it}: {x.shape[0]} design values for n={n}")
            break
        # ---- shapes/types of the written states
        for i, (sg, (tname, shp, val)) in enumerate(zip(case["sigs"], cb)):
            if sg["kind"] != "arr" and len(shp) != 0:
                bad("writeback:scalar_becomes_array", f"it {it}: signal {i} ({sg['kind']}) has state shape {shp}")
            if sg["kind"] == "arr" and sg["size"] > 1 and tuple(shp) != (sg["size"],):
                bad("writeback:array_shape", f"it {it}: signal {i} size {sg['size']} has state shape {shp}")
        # ---- bounds
        tolb = 1e-13 * (1 + np.abs(x))
        if np.any(x < xmin - tolb) or np.any(x > xmax + tolb):
            j = int(np.argmax(np.maximum(xmin - x, x - xmax)))
            bad("bounds", f"it {it}: x[{j}]={x[j]!r} outside [{xmin[j]!r},{xmax[j]!r}] ({case['xmin_form']}/{case['xmax_form']})")
        # ---- move limit
        if it > 0:
            step = np.abs(x - X[it - 1])
            lim = move * dx * (1 + 1e-12) + 1e-14 * (1 + np.abs(x))
            if np.any(step > lim):
                j = int(np.argmax(step - lim))
                bad("move_limit", f"it {it}: |dx[{j}]|={step[j]!r} > move*(xmax-xmin)={move[j] * dx[j]!r} "
                                  f"(move form {case['move_form']})")
        # ---- write-back of the previous subproblem solution
        if it > 0 and it - 1 < len(calls) and "ret" in calls[it - 1]:
            xs = calls[it - 1]["ret"][0]
            if xs.shape != x.shape or not np.array_equal(xs, x):
                bad("writeback:values", f"it {it}: variable signals hold {x}, subproblem solution was {xs}")
    for ci, call in enumerate(calls):
        it = call["ncb"] - 1  # the design this subproblem was built at
        if it < 0 or it >= len(X) or X[it].shape != (n,):
            bad("subproblem:no_design", f"call {ci} without a preceding callback")
            continue
        x = X[it]
        low, upp, alfa, beta, P, Q, b = (call[k_] for k_ in ("low", "upp", "alfa", "beta", "P", "Q", "b"))
        if any(v.shape != (n,) for v in (low, upp, alfa, beta)) or P.shape != (m + 1, n) or Q.shape != (m + 1, n) \
                or b.shape != (m,):
            bad("subproblem:shapes", f"call {ci}: shapes low{low.shape} alfa{alfa.shape} P{P.shape} b{b.shape}")
            continue
        if call["x0"] is not None and not np.array_equal(call["x0"], x):
            bad("subproblem:start_differs", f"call {ci}: x0 handed to subsolv {call['x0']} != current design {x}")
        if not (np.all(low < alfa) and np.all(beta < upp)):
            bad("asymptotes:not_strictly_enclosing", f"call {ci}: low<alfa {np.all(low < alfa)}, beta<upp {np.all(beta < upp)}; "
                                                     f"low={low} alfa={alfa} beta={beta} upp={upp}")
            continue
        if not np.all(alfa <= beta):
            bad("interval:empty", f"call {ci}: alfa > beta: {alfa} {beta}")
            continue
        tolb = 1e-13 * (1 + np.abs(x))
        if np.any(alfa < xmin - tolb) or np.any(beta > xmax + tolb):
            bad("interval:outside_bounds", f"call {ci}: alfa={alfa} xmin={xmin} beta={beta} xmax={xmax}")
        if np.any(x < alfa - tolb) or np.any(x > beta + tolb):
            bad("interval:excludes_current", f"call {ci}: x={x} alfa={alfa} beta={beta}")
        lim = move * dx * (1 + 1e-12) + 1e-14 * (1 + np.abs(x))
        if np.any(x - alfa > lim) or np.any(beta - x > lim):
            bad("interval:exceeds_move", f"call {ci}: x-alfa={x - alfa}, beta-x={beta - x}, move*(xmax-xmin)={move * dx}")
        if np.any(P < 0) or np.any(Q < 0):
            bad("approx:not_convex", f"call {ci}: negative P or Q")
        # ---- approximation reproduces value and gradient of every response at x
        ux, xl = upp - x, x - low
        for i, fi in enumerate(prob["f"]):
            gi, dgi = fi.val(x), fi.grad(x)
            ga = P[i] / ux ** 2 - Q[i] / xl ** 2
            sc = np.abs(dgi) + P[i] / ux ** 2 + Q[i] / xl ** 2
            err = np.abs(ga - dgi) / np.maximum(sc, 1e-300)
            worst["grad"] = max(worst["grad"], float(err.max()))
            if np.any(err > 1e-9):
                j = int(np.argmax(err))
                bad("approx:gradient", f"call {ci} response {i} ({type(fi).__name__}): approx d/dx[{j}]={ga[j]!r}, "
                                       f"exact {dgi[j]!r}; version {case['version']}")
            if i > 0:
                va = float(np.sum(P[i] / ux) + np.sum(Q[i] / xl) - b[i - 1])
                scv = abs(gi) + float(np.sum(P[i] / ux) + np.sum(Q[i] / xl))
                worst["val"] = max(worst["val"], abs(va - gi) / max(scv, 1e-300))
                if abs(va - gi) > 1e-9 * scv:
                    bad("approx:value", f"call {ci} constraint {i} ({type(fi).__name__}): approx value {va!r}, exact {gi!r}")
        # ---- returned solution
        if "ret" not in call:
            continue
        xs, ys, zs, lam, xsi, eta, mu, zet, s = call["ret"]
        if xs.shape != (n,) or np.any(~np.isfinite(xs)):
            bad("solution:not_finite", f"call {ci}: x={xs}")
            continue
        if np.any(xs < alfa) or np.any(xs > beta):
            j = int(np.argmax(np.maximum(alfa - xs, xs - beta)))
            bad("solution:outside_interval", f"call {ci}: x[{j}]={xs[j]!r} not in [{alfa[j]!r},{beta[j]!r}]")
        duals = np.concatenate([np.ravel(v) for v in (ys, zs, lam, xsi, eta, mu, zet, s)])
        if np.any(~np.isfinite(duals)) or np.any(duals < 0):
            bad("solution:negative_multiplier", f"call {ci}: y={ys} z={zs} lam={lam} mu={mu} zet={zet} s={s} "
                                                f"min xsi={np.min(xsi)} min eta={np.min(eta)}")
            continue
        res = own_kkt_residual(xs, ys, float(zs), lam, xsi, eta, mu, float(zet), s, low, upp, alfa, beta, P, Q,
                               call["a0"], call["a"], b, call["c"], call["d"])
        worst["kkt"] = max(worst["kkt"], res / req_eps)
        if not res <= 20 * req_eps:
            # two root causes are kept apart: the solver's own Newton loop ran into its iteration cap (it prints
            # "MMA Subsolver: itt = ..." and returns the unconverged point) / the point is returned as converged
            gave_up = bool(call.get("gave_up", False))
            bad("solution:kkt_residual:" + ("solver_hit_iteration_cap" if gave_up else "silent"),
                f"call {ci}: own KKT residual {res:.3e} > 20*epsimin*sqrt(m+n)={20 * req_eps:.3e} (n={n}, m={m}, "
                f"version {case['version']}, epsimin={case['epsimin']}; gave up at epsi <= "
                f"{call.get('gave_up_epsi_max')})",
                sig={"gave_up": gave_up,
                     # shape of the recorded known finding: the Newton loop stalls only at late barrier levels and the
                     # returned point is still close to optimal (residual far below 1)
                     "late_levels_only": bool(gave_up and (call.get("gave_up_epsi_max") or 1.0) <= 1e-4),
                     "residual_below_1e-2": bool(res <= 1e-2)})
    # ---- end of run
    opt = oracle_optimum(prob)
    xF = X[-1] if X[-1].shape == (n,) else None
    info = {"niter": niter, "worst": worst}
    if opt is None:
        labels.append("optimum:undecided")
    elif xF is not None:
        f = prob["f"]
        act = opt["nactive"] > 0
        labels.append("active_at_optimum" if act else "interior_optimum")
        labels.append(f"oracle:{opt['src']}")
        cmax = float(np.max(MMA_C))
        soft = bool(np.any(opt["lam"] > 0.1 * cmax))
        d0 = float(np.max(np.abs(prob["x0"] - opt["x"]) / dx))
        dF = float(np.max(np.abs(xF - opt["x"]) / dx))
        # MMA without globalisation may end in a limit cycle: a coordinate creeps up to its optimum with growing
        # asymptote distance (asyincr per monotone step), the monotone approximation then sends it to the far end of
        # [alfa, beta], and it creeps back (seen with move = 1, asyincr = 1.3, asydecr = 0.75 on one variable; the same
        # happens with Svanberg's reference update). "Approaches the optimum" is therefore judged per coordinate on the
        # closest of the last 8 iterates, not on wherever in its cycle the run happens to stop.
        late = [x for x in X[-8:] if x.shape == (n,)]
        dF_final = dF
        dF = float(np.max(np.min([np.abs(x - opt["x"]) / dx for x in late], axis=0)))
        fgap = f[0].val(xF) - opt["fval"]
        gmaxF = max(fi.val(xF) for fi in f[1:])
        info.update({"d0": d0, "dF": dF, "dF_final": dF_final, "fgap": fgap, "gmaxF": gmaxF, "lam": opt["lam"], "unique": opt["unique"],
                     "fscale": abs(opt["fval"])})
        claim = case["standard"] and not soft and niter >= 40
        if soft:
            labels.append("soft_constraints")
        if claim:
            _end_of_run(case, prob, opt, xF, info, bad, labels)
        else:
            labels.append("convergence_not_claimed")
    if _debug is not None:
        _debug.update(info)
    return labels, V


MMA_C = np.array([1000.0])  # default cCoef: the elastic variables y_i cost c_i y_i, exact penalty needs lam_i < c_i
# End-of-run thresholds. MMA (no globalisation) has an oscillation floor of about asybound^-2 = 0.01 of the range for
# coordinates whose optimum is interior, and it may zig-zag on non-separable objectives; measured on the unchanged
# tree over ~1000 claimed runs: reciprocal objective max 2.3e-4, diagonal quadratic max 1.04e-2 (sharp cut-off),
# log-sum-exp up to 0.08 (2007) / 0.39 (1987) -> no distance claim for log-sum-exp. Constraint values at the final
# iterate: max +4.6e-5 (constraints are scaled to a range of 0.3..10 over the box).
CONV_DIST = {"recip": 5e-3, "quad": 5e-2}
CONV_FEAS = 1e-3


def _end_of_run(case, prob, opt, xF, info, bad, labels):
    f = prob["f"]
    gF = [fi.val(xF) for fi in f[1:]]
    labels.append("feasibility_claimed")
    if max(gF) > CONV_FEAS:
        i = int(np.argmax(gF))
        bad("end:constraint_violated", f"after {info['niter']} iterations constraint {i + 1} = {gF[i]:.3e} > {CONV_FEAS} "
                                       f"(oracle optimum is feasible with multipliers {opt['lam']})")
    lim = CONV_DIST.get(case["obj"])
    if lim is None or not opt["unique"]:
        labels.append("distance_not_claimed")
        return
    labels.append("convergence_claimed")
    if case.get("fixed_default"):
        labels.append("default_parameters_fixed_case")
        if info["dF"] > 0.03:
            bad(f"end:not_converged:{case['obj']}:default_parameters",
                f"after {info['niter']} iterations with the default asymptote parameters max_j min_(last 8 iterates) "
                f"|x_j - x*_j|/(xmax-xmin) = {info['dF']:.3e} > 0.03 (final iterate {info.get('dF_final', float('nan')):.3e})")
        return
    # "approach": the measured floors above are not guarantees (a 42-iteration run of the 1987 version on a quadratic
    # objective ended at 0.11 of the range, coming from 0.97), so a run is only reported when the final distance exceeds
    # the floor AND is not even a quarter of the initial one
    if info["dF"] > lim and info["dF"] > 0.25 * info["d0"]:
        bad(f"end:not_converged:{case['obj']}", f"after {info['niter']} iterations max_j min_(last 8 iterates) |x_j - x*_j|/(xmax-xmin) = {info['dF']:.3e} > "
                                                 f"{lim} (final iterate {info.get('dF_final', float('nan')):.3e}; start: {info['d0']:.3e}; version {case['version']}, move {case['move']})")
    elif info["d0"] >= 0.2 and not info["dF"] < info["d0"]:
        bad(f"end:not_approaching:{case['obj']}", f"distance to the optimum {info['dF']:.3e} is not below the initial one {info['d0']:.3e}")
