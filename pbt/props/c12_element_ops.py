"""C12 — element-level operators reproduce affine fields exactly and agree with assembly."""
import itertools
import numpy as np
from hypothesis import strategies as st
from pbt.harness import viol
from pbt.common import make_domain
from pbt.props import _c08_helpers as H

PROPERTY_ID = "C12"
RULE = ("case = structured 2D/3D grid (2D up to 6x6 quick / 10x10 thorough, 3D up to 4^3 / 5^3), in-plane element sizes in "
        "[0.2,5] (2D thickness 1 in ~70% of the cases; Stress/energy are only evaluated for unit thickness or 3D), E, nu, "
        "plane mode, alpha, a displacement gradient G and offset c drawn by Hypothesis (modes: stretch = diagonal G, "
        "shear = symmetric off-diagonals, single_shear = one off-diagonal entry, rotation = skew G, general), a scaling "
        "vector x, dofs per node 1..3 for ElementAverage and for the Element/NodalOperation pair, operator leading shape "
        "() .. (2,2,2), per-dof or per-node operator matrix; random operator matrices/vectors from "
        "default_rng(payload_seed). Checked per case: Strain (all elements) vs Voigt(sym G); Stress vs own D.Voigt(sym G); "
        "sum_e x_e V_e s_e.e_e vs u^T K u; Strain(voigt=False) vs Strain(voigt=True); ElementAverage vs centroid value; "
        "ElementOperation vs own gather loop; NodalOperation vs own scatter loop and <N(x),u> = <x,E(u)>; "
        "ThermoMechanical force/moment balance and (plane stress, 3D) f = K (alpha pos). "
        "In addition every unit gradient e_a (x) e_b is enumerated (see exhaustive_subspace). "
        "Non-trivial = G has a non-zero symmetric off-diagonal part AND the grid has >= 2 elements. "
        "Distinct = sha1 of the canonical case JSON.")
ASSUMPTIONS = [
    "1-D domains are outside the quantifier and are not generated",
    "component order as documented in assembly.get_B: 2D [xx, yy, xy]; 3D [xx, yy, zz, yz, zx, xy] (Voigt)",
    "Stress and the energy identity are evaluated in 2D only for unit out-of-plane thickness (as the property states); "
    "ThermoMechanical vs K and Strain are evaluated for any thickness",
    "Strain(voigt=False) is only checked relative to Strain(voigt=True) (documented gamma_xy = 2 eps_xy); the property "
    "statement speaks about the Voigt (engineering-shear) form only",
    "NodalOperation input has shape (*lead, nel) for an operator matrix of shape (*lead, dofs_per_element) "
    "(the shape its own sensitivity returns); lead = () gives the documented (nel,) vector",
    "nu in (-0.9, 0.49), E > 0; the stiffness matrix of the identities is pymoto.AssembleStiffness (checked by C08)",
    "known finding C12-strain-shear-x2 (see known_findings.jsonl): recognised only when the normal components agree "
    "with the reference and every shear component is 2x the engineering shear; the energy identity is then also "
    "evaluated with the shear rows halved and any remaining discrepancy is reported as an unexplained violation",
]
TOL = 1e-11


def budget(tier):
    return {"examples": 5000 if tier == "quick" else 60000, "shards": 16, "shrink": 150 if tier == "quick" else 600}


# ----------------------------------------------------------------------------------------------------------------
def strategy(tier):
    big = tier != "quick"
    unit = st.one_of(st.sampled_from([1.0, 0.5, 2.0]),
                     st.floats(0.2, 5.0, allow_nan=False).map(lambda v: round(v, 3)))
    e_mod = st.one_of(st.sampled_from([1.0, 67.0, 210e9]), st.floats(0.01, 1e3, allow_nan=False).map(lambda v: round(v, 4)))
    nu_s = st.one_of(st.sampled_from([0.3, 0.0, -0.5, 0.49]),
                     st.floats(-0.9, 0.49, allow_nan=False).map(lambda v: round(v, 4)))
    gval = st.one_of(st.sampled_from([1.0, -1.0, 0.5, 0.1]),
                     st.floats(-1.0, 1.0, allow_nan=False).map(lambda v: round(v, 3)))
    cval = st.one_of(st.just(0.0), st.floats(-2.0, 2.0, allow_nan=False).map(lambda v: round(v, 3)))

    @st.composite
    def case(draw):
        dim = draw(st.sampled_from([2, 3]))
        if dim == 2:
            m = 10 if big else 6
            nel = [draw(st.integers(1, m)), draw(st.integers(1, m)), 0]
        else:
            m = 5 if big else 4
            nel = [draw(st.integers(1, m)) for _ in range(3)]
        un = [draw(unit), draw(unit), draw(unit)]
        if draw(st.integers(0, 4)) == 0:
            un = [1.0, 1.0, 1.0]
        if dim == 2 and draw(st.integers(0, 9)) < 7:
            un[2] = 1.0
        gmode = draw(st.sampled_from(["stretch", "shear", "single_shear", "rotation", "general", "general"]))
        G = [[draw(gval) for _ in range(dim)] for _ in range(dim)]
        pairs = [(a, b) for a in range(dim) for b in range(dim) if a != b]
        if gmode == "stretch":
            for a, b in pairs:
                G[a][b] = 0.0
        elif gmode == "shear":
            for a, b in pairs:
                if a < b:
                    G[b][a] = G[a][b]
            if draw(st.booleans()):
                for a in range(dim):
                    G[a][a] = 0.0
        elif gmode == "single_shear":
            keep = draw(st.sampled_from(pairs))
            G = [[(G[a][b] if (a, b) == keep else 0.0) for b in range(dim)] for a in range(dim)]
        elif gmode == "rotation":
            for a in range(dim):
                G[a][a] = 0.0
            for a, b in pairs:
                if a < b:
                    G[b][a] = -G[a][b]
        lead = draw(st.sampled_from([[], [], [1], [2], [3], [2, 2], [2, 3], [2, 2, 2]]))
        return {"dom": {"nel": nel, "unit": un}, "E": draw(e_mod), "nu": draw(nu_s),
                "plane": draw(st.sampled_from(["strain", "stress", "stress", "default"])),
                "alpha": draw(st.sampled_from([1e-6, 1e-5, 1.0, 0.37])),
                "gmode": gmode, "G": G, "c": [draw(cval) for _ in range(dim)],
                "xmode": draw(st.sampled_from(["rand", "ones", "zeros", "neg"])),
                "avg_ndof": draw(st.integers(1, 3)),
                "op": {"ndof": draw(st.integers(1, 3)), "lead": lead, "pernode": draw(st.booleans()),
                       "cplx": draw(st.sampled_from(["none", "none", "data", "matrix"]))},
                "payload_seed": draw(st.integers(0, 2 ** 31 - 1))}
    return case()


EXHAUSTIVE_NOTE = ("unit displacement gradients G = e_a (x) e_b for every (a,b): 2D x {plane strain, plane stress} on a 2x3 grid and "
                   "3D on a 2x3x2 grid, anisotropic element sizes, unit thickness (pins the position of every Voigt "
                   "component separately); plus two fixed large meshes (50x45, 13x14x12)")


def enumerate_cases(tier):
    out = []
    for dim, planes in ((2, ["strain", "stress"]), (3, ["default"])):
        for plane in planes:
            for a in range(dim):
                for b in range(dim):
                    G = [[1.0 if (i, j) == (a, b) else 0.0 for j in range(dim)] for i in range(dim)]
                    out.append({"dom": {"nel": [2, 3, 0 if dim == 2 else 2], "unit": [0.6, 0.7, 1.0 if dim == 2 else 0.9]},
                                "E": 67.0, "nu": 0.3, "plane": plane, "alpha": 1e-5,
                                "gmode": "stretch" if a == b else "single_shear", "G": G, "c": [0.0] * dim,
                                "xmode": "rand", "avg_ndof": 1 + (a + b) % 3,
                                "op": {"ndof": 1 + (a + 2 * b) % 3, "lead": [2], "pernode": True},
                                "payload_seed": 10 * a + b})
    # two large meshes (2250 and 2184 elements, counts that are no multiple of a power of two): loops that
    # process the elements in blocks have to handle the remainder
    out.append({"dom": {"nel": [50, 45, 0], "unit": [0.6, 0.7, 1.0]}, "E": 67.0, "nu": 0.3, "plane": "stress", "alpha": 1e-5,
                "gmode": "stretch", "G": [[1.0, 0.0], [0.0, -0.3]], "c": [0.0, 0.0], "xmode": "rand", "avg_ndof": 2,
                "op": {"ndof": 2, "lead": [2], "pernode": True}, "payload_seed": 901})
    out.append({"dom": {"nel": [13, 14, 12], "unit": [1.0, 0.9, 0.8]}, "E": 2.0, "nu": 0.25, "plane": "default",
                "alpha": 1e-5, "gmode": "stretch", "G": [[0.5, 0, 0], [0, -0.2, 0], [0, 0, 0.3]], "c": [0.0, 0.0, 0.0],
                "xmode": "rand", "avg_ndof": 1, "op": {"ndof": 1, "lead": [], "pernode": False}, "payload_seed": 902})
    return out


def nontrivial(labels):
    return "shear" in labels and "multi" in labels


# ----------------------------------------------------------------------------------------------------------------
def _make_x(mode, nel, rng):
    x = rng.random(nel)
    if mode == "ones":
        x = np.ones(nel)
    elif mode == "zeros":
        x[rng.random(nel) < 0.4] = 0.0
        x[rng.random(nel) < 0.2] = 1.0
    elif mode == "neg":
        x = 2 * x - 1
    return x


class _Ctx:
    pass


def check_case(case):
    return H.in_thread(_check_case, case)


def _check_case(case):
    import pymoto as pym
    d = case["dom"]
    g = H.Grid(d["nel"], d["unit"])
    dim = g.dim
    rng = np.random.default_rng(case["payload_seed"])
    G = np.array(case["G"], dtype=float)
    c = np.array(case["c"], dtype=float)
    plane = case["plane"]
    mode = "strain" if plane == "default" else plane
    pkw = {} if plane == "default" else {"plane": plane}
    V = []
    labels = [f"dim{dim}", f"gmode:{case['gmode']}", f"x:{case['xmode']}", f"plane:{plane if dim == 2 else '3d'}"]
    if g.nel >= 2:
        labels.append("multi")
    symoff = max(abs(G[a, b] + G[b, a]) for a in range(dim) for b in range(dim) if a != b)
    if symoff > 0:
        labels.append("shear")
    unit_thick = dim == 3 or g.thickness == 1.0
    if not unit_thick:
        labels.append("thick2d")
    if len(set(np.round(g.h, 12))) > 1:
        labels.append("aniso")

    def bad(bucket, detail, **kw):
        brief = {k: v for k, v in case.items() if k not in ("op",)}
        V.append(viol(f"C12:{bucket}", f"{detail} | case={brief}", **kw))

    def guarded(component, fn):
        """Run fn (calls into pyMOTO); an exception of the code under test is a violation."""
        try:
            return fn()
        except Exception as e:
            bad(f"raises:{component}:{type(e).__name__}", f"{component} raised {e!r}")
            return None

    dom = guarded("DomainDefinition", lambda: make_domain(d))
    if dom is None:
        return labels, V
    x = _make_x(case["xmode"], g.nel, rng)
    u = (g.pos @ G.T + c).ravel()          # u[n*dim + a] = sum_b G[a,b] pos[n,b] + c[a]

    ctx = _Ctx()
    ctx.pym, ctx.dom, ctx.g, ctx.bad, ctx.guarded = pym, dom, g, bad, guarded
    _check_strain_stress_energy(ctx, case, G, u, x, mode, pkw, unit_thick, labels)
    _check_average(ctx, case, rng, labels)
    _check_operations(ctx, case, rng, labels)
    _check_thermo(ctx, case, x, mode, pkw, labels)
    return labels, V


# ----------------------------------------------------------------------------------------------------------------
class HistoryDependent(Exception):
    """Raised by _run when a module evaluated a second time (another input first, no reset) answers differently."""


def _run(pym, cls, state, **kw):
    m = cls(pym.Signal("in", state=state.copy()), **kw)
    m.response()
    out = m.sig_out[0].state
    # the same module type on a fresh object, evaluated for another input first and then (no reset in between, as in a
    # finite-difference loop or a manual re-evaluation) for this one: the element-level operators are pure functions
    s2 = pym.Signal("in", state=state * 0.37 + 0.21)
    m2 = cls(s2, **kw)
    m2.response()
    s2.state = state.copy()
    m2.response()
    out2 = m2.sig_out[0].state
    a, b = _dense(out), _dense(out2)
    if np.shape(a) != np.shape(b) or not np.allclose(a, b, rtol=1e-12, atol=1e-13 * (1.0 + float(np.max(np.abs(a), initial=0.0)))):
        raise HistoryDependent(f"{cls.__name__}: the second response() of a module (first evaluated for another input) "
                               f"differs from a fresh evaluation by {float(np.max(np.abs(a - b))) if np.shape(a) == np.shape(b) else 'shape'}")
    return out


def _dense(A):
    return A.toarray() if hasattr(A, "toarray") else np.asarray(A)


def _classify(got, ref, nnormal, tol):
    """Compare a (ncomp, nel) output with the per-element reference vector ref.
    Returns ('ok' | 'shear_x2' | 'other', info)."""
    R = ref[:, None]
    dev_n = float(np.max(np.abs(got[:nnormal] - R[:nnormal])))
    dev_s1 = float(np.max(np.abs(got[nnormal:] - R[nnormal:])))
    dev_s2 = float(np.max(np.abs(got[nnormal:] - 2 * R[nnormal:])))
    info = {"dev_normal": dev_n, "dev_shear": dev_s1, "dev_shear_2x": dev_s2, "tol": tol}
    if dev_n <= tol and dev_s1 <= tol:
        return "ok", info
    if dev_n <= tol and dev_s2 <= tol:
        return "shear_x2", info
    return "other", info


def _check_strain_stress_energy(ctx, case, G, u, x, mode, pkw, unit_thick, labels):
    pym, dom, g, bad, guarded = ctx.pym, ctx.dom, ctx.g, ctx.bad, ctx.guarded
    dim = g.dim
    ns = dim * (dim + 1) // 2
    eps_ref = H.voigt_strain(dim, G)
    s_scale = max(float(np.max(np.abs(u))), 1e-300) / float(np.min(g.h))   # rounding scale of B u
    tol_e = TOL * s_scale

    # ---- Strain ------------------------------------------------------------------------------------------------
    eps = guarded("Strain", lambda: np.asarray(_run(pym, pym.Strain, u, domain=dom)))
    strain_state = None
    if eps is not None:
        if eps.shape != (ns, g.nel):
            bad("strain:shape", f"Strain output shape {eps.shape}, expected {(ns, g.nel)}")
            eps = None
        else:
            strain_state, info = _classify(eps, eps_ref, dim, tol_e)
            if strain_state == "shear_x2":
                labels.append("finding:strain_x2")
                bad("strain:shear_x2",
                    f"Strain: normal components agree, every shear component is 2x the engineering shear: element 0 "
                    f"got {eps[:, 0].tolist()} expected {eps_ref.tolist()}",
                    sig={"shape": "shear_x2", "component": "Strain", "factor": 2, "normals_agree": True,
                         "rel_dev_2x": info["dev_shear_2x"] / s_scale, "rel_dev_normals": info["dev_normal"] / s_scale})
            elif strain_state == "other":
                e_bad = int(np.argmax(np.max(np.abs(eps - eps_ref[:, None]), axis=0)))
                bad("strain:values", f"Strain differs from Voigt(sym G): element {e_bad} got {eps[:, e_bad].tolist()} "
                                     f"expected {eps_ref.tolist()} (tol {tol_e:.2e}; {info})")
        # voigt flag: gamma = 2 eps_xy, normal components unchanged (documented relation between the two notations)
        eps_t = guarded("Strain", lambda: np.asarray(_run(pym, pym.Strain, u, domain=dom, voigt=False)))
        if eps is not None and eps_t is not None:
            if eps_t.shape != eps.shape:
                bad("strain:voigt_flag", f"voigt=False output shape {eps_t.shape} vs {eps.shape}")
            else:
                dv = max(float(np.max(np.abs(eps_t[:dim] - eps[:dim]))), float(np.max(np.abs(2 * eps_t[dim:] - eps[dim:]))))
                if dv > 2 * tol_e:
                    bad("strain:voigt_flag", f"Strain(voigt=True) shear is not 2x Strain(voigt=False) shear / normals "
                                             f"differ: el 0 voigt {eps[:, 0].tolist()} tensor {eps_t[:, 0].tolist()}")

    if not unit_thick:
        return
    labels.append("stress_checked")
    # ---- Stress ------------------------------------------------------------------------------------------------
    D = H.d_matrix(dim, case["E"], case["nu"], mode)
    sig_ref = D @ eps_ref
    tol_s = TOL * s_scale * float(np.max(np.abs(D)))
    sig = guarded("Stress", lambda: np.asarray(_run(pym, pym.Stress, u, domain=dom, e_modulus=case["E"],
                                                    poisson_ratio=case["nu"], **pkw)))
    stress_state = None
    if sig is not None:
        if sig.shape != (ns, g.nel):
            bad("stress:shape", f"Stress output shape {sig.shape}, expected {(ns, g.nel)}")
            sig = None
        else:
            stress_state, info = _classify(sig, sig_ref, dim, tol_s)
            if stress_state == "shear_x2":
                labels.append("finding:stress_x2")
                bad("stress:shear_x2",
                    f"Stress: normal components agree, every shear component is 2x D.(engineering strain): element 0 "
                    f"got {sig[:, 0].tolist()} expected {sig_ref.tolist()}",
                    sig={"shape": "shear_x2", "component": "Stress", "factor": 2, "normals_agree": True,
                         "rel_dev_2x": info["dev_shear_2x"] / (s_scale * float(np.max(np.abs(D)))),
                         "rel_dev_normals": info["dev_normal"] / (s_scale * float(np.max(np.abs(D))))})
            elif stress_state == "other":
                e_bad = int(np.argmax(np.max(np.abs(sig - sig_ref[:, None]), axis=0)))
                bad("stress:values", f"Stress differs from D.Voigt(sym G): element {e_bad} got {sig[:, e_bad].tolist()} "
                                     f"expected {sig_ref.tolist()} (tol {tol_s:.2e}; {info})")

    # ---- energy: sum_e x_e V_e sigma_e . eps_e = u^T K(x) u -------------------------------------------------------
    if eps is None or sig is None:
        return
    K = guarded("AssembleStiffness", lambda: _dense(_run(pym, pym.AssembleStiffness, x, domain=dom, e_modulus=case["E"],
                                                         poisson_ratio=case["nu"], **pkw)))
    if K is None:
        return
    e_k = float(u @ K @ u)
    vol = g.vol_inplane     # unit thickness in 2D
    e_raw = float(np.sum(x * vol * np.sum(sig * eps, axis=0)))
    scale = float(np.abs(u) @ np.abs(K) @ np.abs(u)) + float(np.sum(np.abs(x) * vol * np.sum(np.abs(sig * eps), axis=0)))
    tol = TOL * max(scale, 1e-300)
    if abs(e_raw - e_k) <= tol:
        return
    halved = None
    if strain_state == "shear_x2" and stress_state == "shear_x2":
        w = np.ones(dim * (dim + 1) // 2)
        w[dim:] = 0.25          # both factors halved
        halved = float(np.sum(x * vol * np.sum(w[:, None] * sig * eps, axis=0)))
        if abs(halved - e_k) <= tol:
            bad("energy:shear_x2",
                f"sum x V s.e = {e_raw!r} != u^T K u = {e_k!r}; with the doubled shear rows of Strain and Stress halved "
                f"the identity holds ({halved!r})",
                sig={"shape": "shear_x2", "component": "energy", "factor": 2, "normals_agree": True,
                     "rel_dev_2x": abs(halved - e_k) / max(scale, 1e-300), "rel_dev_normals": 0.0})
            return
    bad("energy:mismatch", f"sum_e x_e V_e s_e.e_e = {e_raw!r}, u^T K u = {e_k!r} (tol {tol:.2e})"
                           + ("" if halved is None else f"; still {halved!r} with the known doubled shear halved"))


# ----------------------------------------------------------------------------------------------------------------
def _check_average(ctx, case, rng, labels):
    pym, dom, g, bad, guarded = ctx.pym, ctx.dom, ctx.g, ctx.bad, ctx.guarded
    ndof = case["avg_ndof"]
    labels.append(f"avg_ndof{ndof}")
    a = rng.uniform(-1, 1, (ndof, g.dim))
    c0 = rng.uniform(-1, 1, ndof)
    T = (g.pos @ a.T + c0)                 # (nnodes, ndof) -> interleaved
    out = guarded("ElementAverage", lambda: np.asarray(_run(pym, pym.ElementAverage, T.ravel(), domain=dom)))
    if out is None:
        return
    want = (g.centroid @ a.T + c0).T       # (ndof, nel)
    if ndof == 1:
        want = want[0]
    if out.shape != want.shape:
        bad("average:shape", f"ElementAverage output shape {out.shape}, expected {want.shape} (ndof={ndof})")
        return
    tol = TOL * float(np.max(np.abs(T)))
    if float(np.max(np.abs(out - want))) > tol:
        e_bad = int(np.argmax(np.max(np.abs(out - want).reshape(-1, g.nel), axis=0)))
        bad("average:centroid", f"ElementAverage of a linear field is not its centroid value: element {e_bad} got "
                                f"{out[..., e_bad].tolist()} expected {want[..., e_bad].tolist()} (ndof={ndof})")


def _check_operations(ctx, case, rng, labels):
    pym, dom, g, bad, guarded = ctx.pym, ctx.dom, ctx.g, ctx.bad, ctx.guarded
    op = case["op"]
    ndof, lead, pernode = op["ndof"], tuple(op["lead"]), op["pernode"]
    labels += [f"op_ndof{ndof}", f"op_rank{len(lead)}", "op_pernode" if pernode else "op_perdof"]
    m = g.en * ndof
    A = rng.standard_normal(lead + (m,))
    uu = rng.standard_normal(g.nnodes * ndof)
    xx = rng.standard_normal(lead + (g.nel,))
    cplx = op.get("cplx", "none")          # complex nodal / element data, or a complex operator matrix
    if cplx == "data":
        uu = uu + 1j * rng.standard_normal(uu.shape)
        xx = xx + 1j * rng.standard_normal(xx.shape)
    elif cplx == "matrix":
        A = A + 1j * rng.standard_normal(A.shape)
    dt = float if cplx == "none" else complex
    if cplx != "none":
        labels.append("op_complex_" + cplx)
    dofs = [g.dofs(e, ndof) for e in range(g.nel)]

    # ---- ElementOperation, per-dof matrix: y[..., e] = A . u[dofs_e] ------------------------------------------------
    y = guarded("ElementOperation", lambda: np.asarray(_run(pym, pym.ElementOperation, uu, domain=dom, element_matrix=A.copy())))
    y_ok = False
    if y is not None:
        want = np.zeros(lead + (g.nel,), dtype=dt)
        for e in range(g.nel):
            ue = uu[dofs[e]]
            for idx in itertools.product(*[range(s) for s in lead]):
                want[idx + (e,)] = np.sum(A[idx] * ue)
        if y.shape != want.shape:
            bad("elementop:shape", f"ElementOperation output shape {y.shape}, expected {want.shape}")
        elif float(np.max(np.abs(y - want))) > TOL * max(float(np.max(np.abs(want))), m * float(np.max(np.abs(A))) * float(np.max(np.abs(uu)))):
            bad("elementop:values", f"ElementOperation differs from y_e = B u_e (lead={lead}, ndof={ndof}): max abs err "
                                    f"{np.max(np.abs(y - want)):.3e}")
        else:
            y_ok = True

    # ---- ElementOperation, per-node matrix repeated for every dof: y[d, ..., e] = An . u[conn_e*ndof + d] -----------
    if pernode:
        An = rng.standard_normal(lead + (g.en,))
        if cplx == "matrix":
            An = An + 1j * rng.standard_normal(An.shape)
        yn = guarded("ElementOperation", lambda: np.asarray(_run(pym, pym.ElementOperation, uu, domain=dom, element_matrix=An.copy())))
        if yn is not None:
            shp = lead + (g.nel,) if ndof == 1 else (ndof,) + lead + (g.nel,)
            want = np.zeros(shp, dtype=dt)
            for e in range(g.nel):
                for dd in range(ndof):
                    ue = uu[g.conn[e] * ndof + dd]
                    for idx in itertools.product(*[range(s) for s in lead]):
                        tgt = idx + (e,) if ndof == 1 else (dd,) + idx + (e,)
                        want[tgt] = np.sum(An[idx] * ue)
            if yn.shape != want.shape:
                bad("elementop:pernode_shape", f"per-node ElementOperation output shape {yn.shape}, expected {want.shape}")
            elif float(np.max(np.abs(yn - want))) > TOL * g.en * float(np.max(np.abs(An))) * float(np.max(np.abs(uu))):
                bad("elementop:pernode_values", f"per-node ElementOperation differs from the per-dof gather "
                                                f"(lead={lead}, ndof={ndof}): max abs err {np.max(np.abs(yn - want)):.3e}")

    # ---- NodalOperation: own scatter and exact transposition -------------------------------------------------------
    f = guarded("NodalOperation", lambda: np.asarray(_run(pym, pym.NodalOperation, xx, domain=dom, element_matrix=A.copy())))
    if f is None:
        return
    want = np.zeros(g.nnodes * ndof, dtype=dt)
    for e in range(g.nel):
        for k in range(m):
            acc = 0.0
            for idx in itertools.product(*[range(s) for s in lead]):
                acc += A[idx + (k,)] * xx[idx + (e,)]
            want[dofs[e][k]] += acc
    if f.shape != want.shape:
        bad("nodalop:shape", f"NodalOperation output shape {f.shape}, expected {want.shape}")
        return
    sc = float(np.max(np.abs(A))) * float(np.max(np.abs(xx))) * max(1, int(np.prod(lead))) * g.en
    if float(np.max(np.abs(f - want))) > TOL * sc:
        bad("nodalop:values", f"NodalOperation differs from the scatter of A x_e (lead={lead}, ndof={ndof}): max abs err "
                              f"{np.max(np.abs(f - want)):.3e}")
    if y is not None and y.shape == xx.shape:
        lhs, rhs = complex(f @ uu), complex(np.sum(xx * y))     # bilinear pairing (no conjugation): exact transposition
        sc2 = float(np.abs(f) @ np.abs(uu)) + float(np.sum(np.abs(xx * y)))
        if abs(lhs - rhs) > TOL * max(sc2, 1e-300):
            bad("nodalop:transpose", f"<NodalOperation(x), u> = {lhs!r} but <x, ElementOperation(u)> = {rhs!r} "
                                     f"(lead={lead}, ndof={ndof}, elementop_ok={y_ok})")


def _check_thermo(ctx, case, x, mode, pkw, labels):
    pym, dom, g, bad, guarded = ctx.pym, ctx.dom, ctx.g, ctx.bad, ctx.guarded
    dim = g.dim
    alpha = case["alpha"]
    f = guarded("ThermoMechanical", lambda: np.asarray(_run(pym, pym.ThermoMechanical, x, domain=dom, e_modulus=case["E"],
                                                            poisson_ratio=case["nu"], alpha=alpha, **pkw)))
    if f is None:
        return
    if f.shape != (g.nnodes * dim,):
        bad("thermo:shape", f"ThermoMechanical output shape {f.shape}, expected {(g.nnodes * dim,)}")
        return
    F = f.reshape(g.nnodes, dim)
    fs = float(np.sum(np.abs(F)))
    if fs == 0.0:
        if np.any(x != 0):
            bad("thermo:zero", "thermal load is identically zero for a non-zero input")
        return
    if float(np.max(np.abs(F.sum(axis=0)))) > TOL * fs:
        bad("thermo:force_balance", f"sum of thermal forces per direction = {F.sum(axis=0).tolist()} (sum|f| = {fs:.3e})")
    pairs = [(0, 1)] if dim == 2 else [(0, 1), (1, 2), (2, 0)]
    for a, b in pairs:
        mom = float(np.sum(g.pos[:, a] * F[:, b] - g.pos[:, b] * F[:, a]))
        sc = float(np.sum(np.abs(g.pos[:, a] * F[:, b]) + np.abs(g.pos[:, b] * F[:, a])))
        if abs(mom) > TOL * max(sc, 1e-300):
            bad("thermo:moment_balance", f"moment of the thermal forces about axis ({a},{b}) = {mom!r} (scale {sc:.3e})")
            break
    if dim == 3 or mode == "stress":
        labels.append("thermo_vs_K")
        K = guarded("AssembleStiffness", lambda: _dense(_run(pym, pym.AssembleStiffness, x, domain=dom, e_modulus=case["E"],
                                                             poisson_ratio=case["nu"], **pkw)))
        if K is None:
            return
        uth = (alpha * g.pos).ravel()
        want = K @ uth
        sc = float(np.max(np.abs(K) @ np.abs(uth)))
        if float(np.max(np.abs(f - want))) > TOL * max(sc, 1e-300):
            i = int(np.argmax(np.abs(f - want)))
            bad("thermo:free_expansion", f"f_thermal != K (alpha pos): dof {i} got {f[i]!r} expected {want[i]!r} (scale {sc:.3e})")
