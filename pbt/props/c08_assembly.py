"""C08 — finite-element assembly equals the scaled element sum and keeps its physics."""
import numpy as np
from hypothesis import strategies as st
from pbt.harness import viol
from pbt.common import rel_err, make_domain
from pbt.props import _c08_helpers as H

PROPERTY_ID = "C08"
RULE = ("case = structured 2D/3D grid (nelx,nely 1..6, nelz 0 or 1..3 quick; up to 10x10 / 5x5x5 thorough), element sizes "
        "in [0.2,5], assembly kind (AssembleGeneral with a random non-symmetric / integer / symmetric element matrix and "
        "1-3 dofs per node, AssembleStiffness, AssembleMass with 1-3 dofs per node, AssemblePoisson), material data, "
        "boundary-condition set (none, empty, a few dofs, many dofs, all dofs but those of one node; drawn by "
        "Hypothesis, unsorted, unique), bcdiagval (default, 0, 1, random), add_constant (none, scaled identity, random "
        "non-symmetric sparse, diagonal springs; csc or csr), matrix_type (default, csc, csr) and a scaling vector x "
        "(random in [0,1], ones, 0/1, with exact zeros, with negatives) from numpy default_rng(payload_seed). "
        "Non-trivial = at least 2 elements (so nodes are shared and the scatter accumulates) AND (boundary conditions "
        "or add_constant or anisotropic element sizes). Distinct = sha1 of the canonical case JSON.")
ASSUMPTIONS = [
    "1-D domains (nely=0) are outside the quantifier (2D/3D) and are not generated",
    "bc is a numpy integer array of unique dof indices (what all callers pass); duplicates are not generated",
    "add_constant is a scipy sparse matrix of the assembled shape (the only form callers use; scalars/dense arrays are "
    "not supported by scipy's sparse +=)",
    "matrix_type is scipy.sparse.csc_matrix or csr_matrix (the two documented constructors)",
    "x is a real float vector of length nel; complex scaling is not documented and not generated",
    "with bcdiagval left at the default of AssembleGeneral/Stiffness/Poisson (None) the property only fixes that one "
    "common value sits on all constrained diagonals; AssembleMass's signature default 0.0 is checked as such",
    "Poisson ratio in (-0.9, 0.49) (positive-definite isotropic material), E > 0",
    "trusted base: numpy dense algebra (eigvalsh), scipy sparse -> dense conversion",
]
TOL = 1e-11


def budget(tier):
    return {"examples": 10000 if tier == "quick" else 100000, "shards": 16, "shrink": 150 if tier == "quick" else 600}


# ----------------------------------------------------------------------------------------------------------------
def strategy(tier):
    big = tier != "quick"
    unit = st.one_of(st.sampled_from([1.0, 0.5, 2.0]),
                     st.floats(0.2, 5.0, allow_nan=False).map(lambda v: round(v, 3)))
    e_mod = st.one_of(st.sampled_from([1.0, 210e9, 1e-3, 1e-9, 1e-14]), st.floats(0.01, 1e3, allow_nan=False).map(lambda v: round(v, 4)))
    nu_s = st.one_of(st.sampled_from([0.3, 0.0, -0.5, 0.49]),
                     st.floats(-0.9, 0.49, allow_nan=False).map(lambda v: round(v, 4)))
    # SI magnitudes: vacuum permittivity, densities, conductivities
    prop = st.one_of(st.sampled_from([1.0, 2.5, 8.854e-12, 1e-15, 2330.0, 1e9]), st.floats(0.01, 100.0, allow_nan=False).map(lambda v: round(v, 4)))

    @st.composite
    def case(draw):
        dim = draw(st.sampled_from([2, 3]))
        if dim == 2:
            m = 10 if big else 6
            nel = [draw(st.integers(1, m)), draw(st.integers(1, m)), 0]
        else:
            mxy, mz = (5, 5) if big else (6, 3)
            nel = [draw(st.integers(1, mxy)), draw(st.integers(1, mxy)), draw(st.integers(1, mz))]
        iunit = st.integers(1, 3)     # integer-typed element sizes (DomainDefinition(2, 2, unitx=2, unity=1, unitz=1))
        un = draw(st.one_of(st.just([1.0, 1.0, 1.0]), st.tuples(unit, unit, unit).map(list),
                            st.tuples(unit, unit, unit).map(list), st.tuples(iunit, iunit, iunit).map(list)))
        # physical length scale of the mesh (micrometre, millimetre, kilometre elements)
        uscale = draw(st.sampled_from([1.0, 1.0, 1.0, 1e-6, 1e-3, 1e3]))
        if uscale != 1.0:
            un = [float(u) * uscale for u in un]
        kind = draw(st.sampled_from(["general", "stiffness", "mass", "poisson"]))
        if kind in ("general", "mass"):
            ndof = draw(st.integers(1, 3))
        elif kind == "stiffness":
            ndof = dim
        else:
            ndof = 1
        nnodes = (nel[0] + 1) * (nel[1] + 1) * (nel[2] + 1)
        n = nnodes * ndof
        bcmode = draw(st.sampled_from(["none", "empty", "few", "few", "many", "allbutone"]))
        if bcmode == "few":
            bc = draw(st.lists(st.integers(0, n - 1), unique=True, min_size=1, max_size=min(n, 6)))
        elif bcmode == "many":
            bc = draw(st.lists(st.integers(0, n - 1), unique=True, min_size=min(n, 3), max_size=n))
        elif bcmode == "allbutone":
            keep = draw(st.integers(0, nnodes - 1))
            bc = [i for i in range(n) if i // ndof != keep]
            if draw(st.booleans()):
                bc = bc[::-1]
        else:
            bc = []
        c = {"dom": {"nel": nel, "unit": un}, "uscale": uscale, "kind": kind, "ndof": ndof,
             "bcmode": bcmode, "bc": bc,
             "bcdiag": draw(st.sampled_from(["default", "zero", "one", "rand"])),
             "addc": draw(st.sampled_from(["none", "none", "identity", "sparse", "springs"])),
             "addc_fmt": draw(st.sampled_from(["csc", "csr"])),
             "mtype": draw(st.sampled_from(["default", "csc", "csr"])),
             "xmode": draw(st.sampled_from(["rand", "ones", "binary", "zeros", "neg"])),
             "payload_seed": draw(st.integers(0, 2 ** 31 - 1))}
        if kind == "general":
            c["elmat"] = draw(st.sampled_from(["normal", "normal", "int", "sym"]))
        elif kind == "stiffness":
            c["E"], c["nu"] = draw(e_mod), draw(nu_s)
            # complex modulus (structural damping; the repository's eigenvalue tests use e_modulus=1+1j)
            c["E_phase"] = draw(st.sampled_from([0.0, 0.0, 0.0, 0.4, 1.0]))
            c["plane"] = draw(st.sampled_from(["strain", "stress", "stress", "default"]))
        else:
            c["matprop"] = draw(prop)
        return c
    return case()


def nontrivial(labels):
    return "multi" in labels and ("bc" in labels or "addc" in labels or "aniso" in labels)


# ----------------------------------------------------------------------------------------------------------------
def _make_x(mode, nel, rng):
    x = rng.random(nel)
    if mode == "ones":
        x = np.ones(nel)
    elif mode == "binary":
        x = (x < 0.5).astype(float)
    elif mode == "zeros":
        x[rng.random(nel) < 0.4] = 0.0
        x[rng.random(nel) < 0.2] = 1.0
    elif mode == "neg":
        x = 2 * x - 1
    return x


def _sparse(kind, fmt, n, scale, rng):
    from scipy.sparse import csc_matrix, csr_matrix
    ctor = csc_matrix if fmt == "csc" else csr_matrix
    if kind == "identity":
        return ctor(np.eye(n) * (scale * float(rng.uniform(0.1, 10.0))))
    if kind == "springs":
        k = int(rng.integers(1, min(n, 4) + 1))
        idx = rng.choice(n, size=k, replace=False)
        return ctor((scale * rng.uniform(0.1, 10.0, k), (idx, idx)), shape=(n, n))
    dens = min(1.0, 3.0 / n)
    a = rng.standard_normal((n, n)) * (rng.random((n, n)) < dens) * scale
    return ctor(a)


def check_case(case):
    return H.in_thread(_check_case, case)


def _check_case(case):
    import pymoto as pym
    from scipy.sparse import csc_matrix, csr_matrix
    d = case["dom"]
    kind, ndof = case["kind"], case["ndof"]
    g = H.Grid(d["nel"], d["unit"])
    rng = np.random.default_rng(case["payload_seed"])
    x = _make_x(case["xmode"], g.nel, rng)
    n = g.nnodes * ndof
    V = []

    labels = [f"dim{g.dim}", f"kind:{kind}", f"x:{case['xmode']}", f"mtype:{case['mtype']}", f"ndof{ndof}"]
    if g.nel >= 2:
        labels.append("multi")
    if case.get("uscale", 1.0) != 1.0:
        labels.append(f"length_scale:{case['uscale']:g}")
    if len(set(np.round(g.h, 12))) > 1:
        labels.append("aniso")
    has_bc = case["bcmode"] != "none"
    if has_bc:
        labels += [f"bc:{case['bcmode']}", f"bcdiag:{case['bcdiag']}"] + (["bc"] if len(case["bc"]) else [])
    if case["addc"] != "none":
        labels += ["addc", f"addc:{case['addc']}:{case['addc_fmt']}"]
    if len(case["bc"]) and case["addc"] != "none":
        labels.append("bc+addc")
    if g.dim == 2 and g.thickness != 1.0:
        labels.append("thick2d")

    def bad(bucket, detail):
        V.append(viol(f"C08:{bucket}", f"{detail} | case={ {k: v for k, v in case.items() if k != 'bc'} } nbc={len(case['bc'])}"))

    # ---- reference element matrix (own integration) and module constructor arguments -------------------------------
    kwargs = {}
    if kind == "general":
        m = g.en * ndof
        if case["elmat"] == "int":
            Ke = rng.integers(-9, 10, size=(m, m)).astype(np.int64)
        else:
            Ke = rng.standard_normal((m, m))
            if case["elmat"] == "sym":
                Ke = Ke + Ke.T
        cls = pym.AssembleGeneral
        kwargs["element_matrix"] = Ke.copy()
        labels.append(f"elmat:{case['elmat']}")
    elif kind == "stiffness":
        plane = case["plane"]
        E = case["E"] * (1.0 + 1j * case["E_phase"]) if case.get("E_phase") else case["E"]
        Ke = H.ke_stiffness(g, 1.0, case["nu"], "strain" if plane == "default" else plane) * E
        cls = pym.AssembleStiffness
        kwargs.update(e_modulus=E, poisson_ratio=case["nu"])
        if case.get("E_phase"):
            labels.append("complex_modulus")
        if plane != "default":
            kwargs["plane"] = plane
        labels.append(f"plane:{plane}" if g.dim == 2 else "plane:3d")
    elif kind == "mass":
        Ke = H.ke_mass(g, case["matprop"], ndof)
        cls = pym.AssembleMass
        kwargs.update(material_property=case["matprop"], ndof=ndof)
    else:
        Ke = H.ke_poisson(g, case["matprop"])
        cls = pym.AssemblePoisson
        kwargs.update(material_property=case["matprop"])
    scale_e = float(np.max(np.abs(Ke))) or 1.0

    bc = np.array(case["bc"], dtype=np.int64)
    bcdiag = {"default": None, "zero": 0.0, "one": 1.0}.get(case["bcdiag"], 0.0)
    if case["bcdiag"] == "rand":
        bcdiag = float(scale_e * rng.uniform(0.1, 10.0) * (1 if rng.random() < 0.7 else -1))
    const = None if case["addc"] == "none" else _sparse(case["addc"], case["addc_fmt"], n, scale_e, rng)
    const_dense = None if const is None else const.toarray().copy()
    if case["mtype"] != "default":
        kwargs["matrix_type"] = csc_matrix if case["mtype"] == "csc" else csr_matrix

    def assemble(xv, full):
        """Run the module under test; returns a dense array or None (after recording a raises-violation)."""
        kw = dict(kwargs)
        if "element_matrix" in kw:
            kw["element_matrix"] = kw["element_matrix"].copy()
        if full:
            if has_bc:
                kw["bc"] = bc.copy()
                if bcdiag is not None:
                    kw["bcdiagval"] = bcdiag
            if const is not None:
                kw["add_constant"] = const.copy()
        try:
            dom = make_domain(d)
            mod = cls(pym.Signal("x", state=xv.copy()), domain=dom, **kw)
            mod.response()
            out = mod.sig_out[0].state
            A = out.toarray() if hasattr(out, "toarray") else np.asarray(out)
        except Exception as e:
            bad(f"raises:{kind}:{type(e).__name__}", f"{'full' if full else 'bare'} assembly raised {e!r}")
            return None
        A = np.asarray(A)
        if A.shape != (n, n):
            bad(f"shape:{kind}", f"assembled shape {A.shape}, expected {(n, n)}")
            return None
        return A

    # ---- (a)+(b): bare assembly = own scatter of own element matrices ----------------------------------------------
    S = H.scatter(g, ndof, Ke, x)
    A0 = assemble(x, full=False)
    if A0 is None:
        return labels, V
    bare_ok = True
    err = rel_err(A0, S)
    if err > TOL:
        bare_ok = False
        ij = np.unravel_index(np.argmax(np.abs(A0 - S)), S.shape)
        bad(f"sum:{kind}", f"sum_e x_e K_e differs from the independent scatter: rel err {err:.3e}, worst entry {ij}: "
                           f"got {A0[ij]!r} expected {S[ij]!r}")

    # ---- (c) physics on the bare matrix ---------------------------------------------------------------------------
    if kind == "stiffness":
        _physics_stiffness(g, A0, x, assemble, bad)
    elif kind == "mass":
        _physics_mass(g, A0, x, ndof, case["matprop"], bad)
    elif kind == "poisson":
        _physics_poisson(g, A0, x, case["matprop"], rng, bad)

    # ---- boundary conditions and constant ---------------------------------------------------------------------------
    if has_bc or const is not None:
        A1 = assemble(x, full=True)
        if A1 is None:
            return labels, V
        R = A1 - (const_dense if const is not None else 0.0)     # the constant is added as is (not masked by bc)
        base = S if bare_ok else A0     # a wrong element sum was reported above: do not report it again here
        mask = np.zeros(n, dtype=bool)
        mask[bc] = True
        tol_abs = TOL * max(float(np.max(np.abs(A1), initial=0.0)), float(np.max(np.abs(base), initial=0.0)), scale_e)
        diag = bcdiag
        if has_bc and len(bc) > 0:
            dv = R[bc, bc]
            if bcdiag is None:
                if kind == "mass":
                    diag = 0.0
                else:
                    diag = complex(dv[0]) if np.iscomplexobj(dv) else float(np.median(dv))
                    if not np.all(np.isfinite(dv)) or np.max(np.abs(dv - diag)) > tol_abs:
                        bad("bc:diag_default", f"constrained diagonals are not one common value: {dv[:8]}")
            if np.max(np.abs(dv - diag)) > max(tol_abs, TOL * abs(diag)):
                bad("bc:diag", f"diagonal at constrained dofs {dv[:8]} expected {diag}")
            off = R.copy()
            off[bc, bc] = 0.0
            worst = max(float(np.max(np.abs(off[mask, :]), initial=0.0)), float(np.max(np.abs(off[:, mask]), initial=0.0)))
            if worst > tol_abs:
                bad("bc:rowcol", f"rows/columns of constrained dofs are not zero (max |entry| {worst:.3e}, nbc={len(bc)})")
        ff = ~mask
        e_ff = float(np.max(np.abs(R[np.ix_(ff, ff)] - base[np.ix_(ff, ff)]), initial=0.0))
        if e_ff > tol_abs:
            which = "add_constant" if const is not None and not has_bc else ("bc:free_block" if const is None else "bc+add_constant:free_block")
            bad(which, f"free-free block differs from (element sum + constant): max abs err {e_ff:.3e} (tol {tol_abs:.1e})")
    return labels, V


# ----------------------------------------------------------------------------------------------------------------
def _physics_stiffness(g, K, x, assemble, bad):
    nk = float(np.max(np.abs(K), initial=0.0))
    if nk == 0.0:
        return
    if float(np.max(np.abs(K - K.T))) > TOL * nk:
        bad("physics:stiffness:symmetry", f"max |K-K^T| = {np.max(np.abs(K - K.T)):.3e}, max|K| = {nk:.3e}")
    for name, r in H.rigid_body_modes(g):
        res = K @ r
        sc = float(np.max(np.abs(K) @ np.abs(r)))
        if sc > 0 and float(np.max(np.abs(res))) > TOL * sc:
            bad(f"physics:stiffness:rigid_body:{'translation' if name[0] == 't' else 'rotation'}",
                f"K r != 0 for rigid mode {name}: max|K r| = {np.max(np.abs(res)):.3e}, scale {sc:.3e}")
            break
    Kp = K
    if np.any(x < 0):
        Kp = assemble(np.abs(x), full=False)
        if Kp is None:
            return
    if np.iscomplexobj(Kp):
        # complex modulus E = |E| e^{i phi}: K / E is the real stiffness matrix (exactly: the element matrix is linear in E)
        ph = Kp[np.unravel_index(np.argmax(np.abs(Kp)), Kp.shape)]
        Kp = Kp / (ph / abs(ph))
        if float(np.max(np.abs(Kp.imag))) > TOL * nk:
            bad("physics:stiffness:complex_modulus", f"K is not a complex multiple of a real matrix: max |Im(K/phase)| = "
                                                     f"{np.max(np.abs(Kp.imag)):.3e}, max|K| = {nk:.3e}")
            return
        Kp = Kp.real * np.sign(np.trace(Kp.real) or 1.0)
    w = np.linalg.eigvalsh((Kp + Kp.T) / 2)
    if w[0] < -1e-10 * max(abs(w[-1]), abs(w[0])):
        bad("physics:stiffness:psd", f"lambda_min = {w[0]:.3e}, lambda_max = {w[-1]:.3e} for x >= 0")


def _physics_mass(g, M, x, ndof, rho, bad):
    want = rho * g.vol * float(np.sum(x))
    sc = rho * g.vol * float(np.sum(np.abs(x)))
    for dd in range(ndof):
        one = np.zeros(g.nnodes * ndof)
        one[dd::ndof] = 1.0
        got = float(one @ M @ one)
        if abs(got - want) > TOL * max(sc, 1e-300):
            bad("physics:mass:total", f"1_d^T M 1_d = {got!r} for d={dd}, expected rho*V*sum(x) = {want!r}")
            break
        for d2 in range(ndof):
            if d2 != dd:
                two = np.zeros(g.nnodes * ndof)
                two[d2::ndof] = 1.0
                if abs(float(one @ M @ two)) > TOL * max(sc, 1e-300):
                    bad("physics:mass:coupling", f"1_{dd}^T M 1_{d2} = {float(one @ M @ two)!r}, expected 0")
                    return


def _physics_poisson(g, P, x, kappa, rng, bad):
    one = np.ones(g.nnodes)
    sc = float(np.max(np.abs(P) @ one))
    if sc > 0 and float(np.max(np.abs(P @ one))) > TOL * sc:
        bad("physics:poisson:constants", f"max|P 1| = {np.max(np.abs(P @ one)):.3e}, scale {sc:.3e}")
    a = rng.uniform(-1, 1, g.dim)
    T = g.pos @ a + float(rng.uniform(-1, 1))
    got = float(T @ P @ T)
    want = kappa * float(a @ a) * g.vol * float(np.sum(x))
    sc = float(np.abs(T) @ np.abs(P) @ np.abs(T))
    if abs(got - want) > TOL * max(sc, 1e-300):
        bad("physics:poisson:energy", f"T^T P T = {got!r} for T = a.pos + c, expected k|a|^2 V sum(x) = {want!r}")
