"""Helper library for C19: small maps with exactly known derivatives (pure numpy, nothing from pymoto).

Every Spec knows
  forward(xs)            -> list of outputs                       (the map itself)
  jvp(xs, ts)            -> list of output tangents               (exact R-linear derivative applied to tangents ts)
  adjoint(xs, ws, drop)  -> list of flat input gradients g_i      (exact adjoint, convention d(Re sum w*y) = Re sum g*dx)
  adjoint_impl(xs, ws)   -> what the pyMOTO module built on it returns: the exact adjoint, or a deliberately wrong one
  mag(axs)               -> entry-wise magnitude bound of the outputs when evaluated on |inputs| with |coefficients|
All maps are polynomials of degree <= 2 in the real and imaginary parts of their inputs.
"""
import numpy as np
import scipy.sparse as sp

SCALAR_KINDS = ("pyfloat", "pycomplex", "npfloat", "npcomplex")
VARIANTS = ("ok", "scale_entry", "sign", "missing_term", "transpose", "conj")


def flat(x):
    return np.asarray(x).reshape(-1)


def is_cplx(x):
    if sp.issparse(x):
        return np.issubdtype(x.dtype, np.complexfloating)
    return np.iscomplexobj(x)


def like(g, proto, python=False):
    """Shape the flat gradient g like the input value proto."""
    if isinstance(proto, np.ndarray):
        return np.asarray(g).reshape(proto.shape)
    v = np.asarray(g).reshape(-1)[0]
    if python:
        return complex(v) if np.iscomplexobj(v) else float(v)
    return v


def dense(y):
    return y.toarray() if sp.issparse(y) else np.asarray(y)


def make_value(kind, cplx, shape, zeros, seed):
    """An input value of the requested python/numpy kind; `zeros` entries are exactly zero."""
    rng = np.random.default_rng(seed)
    n = int(np.prod(shape)) if kind in ("arr1", "arr2") else 1
    v = rng.uniform(0.3, 2.0, n) * rng.choice([-1.0, 1.0], n)
    if cplx:
        v = v + 1j * rng.uniform(0.3, 2.0, n) * rng.choice([-1.0, 1.0], n)
    if zeros:
        v[rng.permutation(n)[:min(zeros, n)]] = 0
    if kind == "pyfloat":
        return float(v[0].real)
    if kind == "pycomplex":
        return complex(v[0])
    if kind == "npfloat":
        return np.float64(v[0].real)
    if kind == "npcomplex":
        return np.complex128(v[0])
    if kind == "arr0":
        return np.array(v[0])
    return np.ascontiguousarray(v.reshape(shape))


def _coef(rng, shape, cplx):
    a = rng.uniform(0.2, 1.0, shape) * rng.choice([-1.0, 1.0], shape)
    if cplx:
        a = a + 1j * rng.uniform(0.2, 1.0, shape) * rng.choice([-1.0, 1.0], shape)
    return a


class Spec:
    """typ in lin | quad | esq | pyscalar | conj | abs2 | reim | sparse"""

    def __init__(self, typ, variant, seed, protos, cplx_coef=False, out_shapes=((),), fmt="csr", cx=False):
        self.typ, self.variant, self.cc = typ, variant, bool(cplx_coef)
        self.cx = bool(cx)      # gradients are returned complex-typed iff anything in the graph is complex
        self.protos = protos
        self.sizes = [flat(p).size for p in protos]
        self.N = sum(self.sizes)
        self.off = np.concatenate([[0], np.cumsum(self.sizes)]).astype(int)
        rng = np.random.default_rng(seed)
        self.i0 = int(rng.integers(len(protos)))
        self.k0 = int(rng.integers(self.sizes[self.i0]))
        cc = self.cc
        if typ == "lin":
            self.out_shapes = [tuple(s) for s in out_shapes]
            self.A = [[_coef(rng, (int(np.prod(s)), n), cc) for n in self.sizes] for s in self.out_shapes]
            self.c = [_coef(rng, (int(np.prod(s)),), cc) for s in self.out_shapes]
        elif typ == "quad":
            h = _coef(rng, (self.N, self.N), cc)
            self.H, self.b, self.c0 = 0.5 * (h + h.T), _coef(rng, (self.N,), cc), _coef(rng, (), cc)[()]
        elif typ in ("esq", "conj"):
            self.cq, self.d = _coef(rng, (self.N,), cc), _coef(rng, (self.N,), cc)
        elif typ == "pyscalar":
            conv = complex if cc else float
            self.pa, self.pb, self.pc = (conv(_coef(rng, (), cc)[()]) for _ in range(3))
        elif typ == "abs2":
            self.cq = _coef(rng, (self.N,), False)
        elif typ == "reim":
            self.cq, self.d = _coef(rng, (self.N,), False), _coef(rng, (self.N,), False)
        elif typ == "sparse":
            r, c = (2, 3) if self.N < 3 else (3, 3)
            nnz = int(rng.integers(2, r * c))
            pos = rng.permutation(r * c)[:nnz]
            self.shape, self.rows, self.cols, self.fmt = (r, c), pos // c, pos % c, fmt
            self.B, self.c = _coef(rng, (nnz, self.N), cc), _coef(rng, (nnz,), cc)
        else:
            raise ValueError(typ)
        self.nout = len(self.out_shapes) if typ == "lin" else (2 if typ == "reim" else 1)
        self.j0 = int(rng.integers(self.nout))

    # -- helpers
    def cat(self, xs):
        return np.concatenate([flat(x) for x in xs])

    def split(self, g):
        return [g[self.off[i]:self.off[i + 1]] for i in range(len(self.sizes))]

    # -- the map
    def forward(self, xs):
        t = self.typ
        if t == "lin":
            out = []
            for j, s in enumerate(self.out_shapes):
                y = self.c[j] + sum(self.A[j][i] @ flat(x) for i, x in enumerate(xs))
                out.append(y.reshape(s) if s != () else y[0])
            return out
        if t == "pyscalar":
            x = xs[0]
            return [self.pa * x * x + self.pb * x + self.pc]
        X = self.cat(xs)
        if t == "quad":
            return [0.5 * (X @ (self.H @ X)) + self.b @ X + self.c0]
        shp = np.shape(xs[0])

        def sh(y):
            return y.reshape(shp) if isinstance(xs[0], np.ndarray) else y[0]
        if t == "esq":
            return [sh(self.cq * X * X + self.d * X)]
        if t == "conj":
            return [sh(self.cq * np.conj(X) + self.d * X)]
        if t == "abs2":
            return [sh(self.cq * (X * np.conj(X)).real)]
        if t == "reim":
            return [sh(self.cq * X.real), sh(self.d * X.imag)]
        if t == "sparse":
            data = self.B @ X + self.c
            m = sp.coo_matrix((data, (self.rows, self.cols)), shape=self.shape)
            return [m.tocsr() if self.fmt == "csr" else m.tocsc()]

    def mag(self, axs):
        """Bound on the magnitude of every term that enters each output entry (inputs given as magnitudes)."""
        t = self.typ
        if t == "lin":
            return [(np.abs(self.c[j]) + sum(np.abs(self.A[j][i]) @ flat(x) for i, x in enumerate(axs)))
                    .reshape(s) for j, s in enumerate(self.out_shapes)]
        if t == "pyscalar":
            x = float(flat(axs[0])[0])
            return [np.array(abs(self.pa) * x * x + abs(self.pb) * x + abs(self.pc))]
        X = self.cat(axs)
        if t == "quad":
            return [np.array(0.5 * (X @ (np.abs(self.H) @ X)) + np.abs(self.b) @ X + abs(self.c0))]
        if t == "esq":
            return [np.abs(self.cq) * X * X + np.abs(self.d) * X]
        if t == "conj":
            return [(np.abs(self.cq) + np.abs(self.d)) * X]
        if t == "abs2":
            return [np.abs(self.cq) * X * X]
        if t == "reim":
            return [np.abs(self.cq) * X, np.abs(self.d) * X]
        if t == "sparse":
            m = np.zeros(self.shape)
            m[self.rows, self.cols] = np.abs(self.B) @ X + np.abs(self.c)
            return [m]

    def jvp(self, xs, ts):
        t = self.typ
        T = self.cat(ts)
        if t == "lin":
            return [sum(self.A[j][i] @ flat(tt) for i, tt in enumerate(ts)).reshape(s)
                    for j, s in enumerate(self.out_shapes)]
        if t == "pyscalar":
            return [np.asarray((2 * self.pa * xs[0] + self.pb) * T[0])]
        X = self.cat(xs)
        if t == "quad":
            return [np.asarray((self.H @ X + self.b) @ T)]
        if t == "esq":
            return [(2 * self.cq * X + self.d) * T]
        if t == "conj":
            return [self.cq * np.conj(T) + self.d * T]
        if t == "abs2":
            return [2 * self.cq * (np.conj(X) * T).real]
        if t == "reim":
            return [self.cq * T.real, self.d * T.imag]
        if t == "sparse":
            m = np.zeros(self.shape, dtype=complex)
            m[self.rows, self.cols] = self.B @ T
            return [m]

    def adjoint(self, xs, ws, drop=False):
        """Exact adjoint as one flat vector per input. drop=True leaves out one term (a 'forgotten term' bug)."""
        t = self.typ
        if t == "pyscalar":     # plain python arithmetic: the result is a python number for python x and w
            return [(2 * self.pa * xs[0] + (0 if drop else self.pb)) * ws[0]]
        ws = [None if w is None else dense(w) for w in ws]
        if t == "lin":
            gs = []
            for i in range(len(xs)):
                g = np.zeros(self.sizes[i], dtype=complex)
                for j in range(self.nout):
                    if ws[j] is None or (drop and self.nout > 1 and j == self.j0):
                        continue
                    a = self.A[j][i]
                    if self.variant == "transpose" and a.shape[0] == a.shape[1] and a.shape[0] > 1:
                        g = g + a @ flat(ws[j])
                    else:
                        g = g + a.T @ flat(ws[j])
                if drop and self.nout == 1 and i == self.i0:
                    g = g * 0
                gs.append(g)
            return gs
        X = self.cat(xs)
        w = None if ws[0] is None else flat(ws[0])
        if t == "quad":
            return self.split((self.H @ X + (0 if drop else self.b)) * w[0])
        if t == "esq":
            return [(2 * self.cq * X + (0 if drop else self.d)) * w]
        if t == "conj":
            return [np.conj(w * self.cq) + (0 if drop else w * self.d)]
        if t == "abs2":
            return [2 * w.real * self.cq * np.conj(X) * (0 if drop else 1)]
        if t == "reim":
            g = np.zeros(self.N, dtype=complex)
            if ws[0] is not None and not (drop and self.j0 == 0):
                g = g + flat(ws[0]).real * self.cq
            if ws[1] is not None and not (drop and self.j0 == 1):
                g = g - 1j * flat(ws[1]).real * self.d
            return [g]
        if t == "sparse":
            g = self.B.T @ np.asarray(ws[0])[self.rows, self.cols]
            return self.split(g * (0 if drop else 1))

    def adjoint_impl(self, xs, ws):
        v = self.variant
        gs = self.adjoint(xs, ws, drop=(v == "missing_term"))
        if self.typ == "pyscalar":
            g = gs[0]
            if v in ("sign", "transpose"):
                g = -g
            elif v == "scale_entry":
                g = 1.5 * g
            elif v == "conj":
                g = g.conjugate() if hasattr(g, "conjugate") else np.conj(g)
            return [g]
        gs = [np.array(g, dtype=complex if np.iscomplexobj(g) else float) for g in gs]
        i0 = self.i0
        if v == "sign" or (v == "transpose" and self.typ != "lin"):
            gs[i0] = -gs[i0]
        elif v == "scale_entry":
            gs[i0][self.k0] = gs[i0][self.k0] * 1.5
        elif v == "conj":
            gs[i0] = np.conj(gs[i0])
        out = []
        for g, p in zip(gs, xs):
            g = np.asarray(g, dtype=complex) if self.cx else np.real(g)
            out.append(like(g, p))
        return out


class RefNet:
    """Reference interpreter of a module graph (own code; used for the reference difference quotients)."""

    def __init__(self):
        self.mods = []          # (spec, in_names, out_names)
        self.values = {}        # name -> base value

    def add(self, spec, ins, outs):
        self.mods.append((spec, list(ins), list(outs)))

    def evaluate(self, values, frozen=()):
        """Run all modules in order on a copy of `values`; modules producing a signal in `frozen` are skipped."""
        vals = dict(values)
        for spec, ins, outs in self.mods:
            if any(o in frozen for o in outs):
                continue
            ys = spec.forward([vals[i] for i in ins])
            for o, y in zip(outs, ys):
                vals[o] = y
        return vals

    def magnitudes(self, values, frozen=()):
        vals = {k: np.abs(dense(v)) for k, v in values.items()}
        for spec, ins, outs in self.mods:
            if any(o in frozen for o in outs):
                continue
            ys = spec.mag([vals[i] for i in ins])
            for o, y in zip(outs, ys):
                vals[o] = np.asarray(y)
        return vals

    def tangents(self, values, name, tangent, frozen=()):
        """Exact tangents of all signals for the tangent `tangent` (array like the signal) of signal `name`."""
        tang = {k: np.zeros(np.shape(dense(v)), dtype=complex) for k, v in values.items()}
        tang[name] = np.asarray(tangent, dtype=complex)
        for spec, ins, outs in self.mods:
            if any(o in frozen for o in outs):
                continue
            ts = spec.jvp([values[i] for i in ins], [tang[i] for i in ins])
            for o, t in zip(outs, ts):
                tang[o] = np.asarray(t, dtype=complex).reshape(np.shape(dense(values[o])))
        return tang
