"""C17 — the optimality-criteria update keeps bounds, move limit and volume.

A recording identity module placed first in the network observes the variable states at every response and the
objective gradient at every sensitivity pass.  The oracle re-implements the OC map  l -> clip(x sqrt(-g/l), lo, hi)
and the bisection invariants of minimize_oc (routines.py): the loop keeps V(l1) > maxvol >= V(l2) and stops with
l2 - l1 <= l1l2tol, the returned design belongs to the last midpoint (= l1 or l2), hence to a multiplier within l1l2tol of
the exact one  l* = inf{l : V(l) <= maxvol}.  Because every component of the OC map is non-increasing in l this gives
component-wise and volume sandwiches without any guessed constant.
"""
import contextlib
import io
import math
import threading

import numpy as np
from hypothesis import strategies as st

from pbt.harness import viol

PROPERTY_ID = "C17"
RULE = ("case = 1-4 variable signals (arrays of 1..30 entries, python/numpy scalars; given as plain Signals, as basic slices of one design Signal, or with pre-allocated sensitivity buffers), scalar or per-variable xmin/xmax (float, or integer-typed: python ints / integer arrays, for either or both), "
        "move limit, volume target from infeasible-low to infeasible-high (or the default), objective sum c_i/x_i^q "
        "(q=1,2,3) or the compliance of a small FE model, maxit, stopping tolerances, bisection parameters, payload "
        "seed. One case = one minimize_oc run; every design transition is checked. Non-trivial = at least 2 "
        "iterations, (at least 2 signals or per-variable bounds) and at least one variable on a move or box limit in "
        "some transition. Distinct = sha1 of the canonical case JSON.")
ASSUMPTIONS = [
    "x > 0 (xmin > 0) and strictly negative objective gradients (the property's quantifier); l1init = 0",
    "the volume claim is made only when maxvol lies in [sum lo, sum hi] of the current move/box limits AND "
    "V(l2init) <= maxvol (the bisection cannot represent multipliers above l2init); other transitions are counted as "
    "'unreachable' and only checked for bounds, move limit and the OC map",
    "convergence to the analytic optimum is claimed only for sum c_i/x_i with tolx = tolf = 0, a reachable volume and "
    "maxit >= ceil(max|x0-x*|/move) + ceil(max(xmax-xmin)/move) + 6",
    "FE objective: gradient taken as recorded from pyMOTO's own modules (their exactness is property C01)",
]


def budget(tier):
    return {"examples": 3000 if tier == "quick" else 40000, "shards": 16, "shrink": 150 if tier == "quick" else 600}


def strategy(tier):
    big = tier != "quick"

    @st.composite
    def case(draw):
        obj = draw(st.sampled_from(["recip1", "recip1", "recip2", "recip3", "fe"]))
        c = {"obj": obj}
        if obj == "fe":
            c["nx"] = draw(st.integers(2, 6 if big else 5))
            c["ny"] = draw(st.integers(1, 4 if big else 3))
            c["nsig"] = draw(st.integers(1, 4))
            c["sigs"] = []
        else:
            nsig = draw(st.integers(1, 4))
            sigs = []
            for _ in range(nsig):
                k = draw(st.sampled_from(["arr", "arr", "arr", "pyfloat", "npfloat"]))
                sigs.append({"kind": k, "size": draw(st.integers(1, 30 if big else 20)) if k == "arr" else 1})
            c["sigs"] = sigs
        conv = obj == "recip1" and draw(st.booleans())  # profile in which the convergence claim can be made
        c.update({
            "xmin_form": draw(st.sampled_from(["scalar", "per_var"])),
            "xmax_form": draw(st.sampled_from(["scalar", "per_var"])),
            # integer-typed bounds (python ints, integer arrays) are as admissible as floats: xmin=0/xmax=1 is the
            # usual way of calling it
            "bound_type": draw(st.sampled_from(["float", "float", "int", "int_lo", "int_hi"])),
            # how the variable signals are given: plain Signals, basic slices of one design Signal (array kinds only),
            # or Signals constructed with a pre-allocated sensitivity buffer (reset() then clears it in place)
            "var_form": draw(st.sampled_from(["signals", "signals", "slices", "prealloc", "fancy"])),
            # some coefficients of sum c_i/x_i^q exactly zero, or zero up to round-off with the wrong sign (0.3-0.1-0.2 =
            # -2.8e-17): gradient entries that are 0 or +1e-17-sized, which minimize_oc clips to zero
            "czero": draw(st.sampled_from(["none", "none", "none", "zero", "roundoff"])),
            "pre_sens": draw(st.sampled_from([False, False, True])),   # sensitivities left in the network beforehand
            # initial states that are integer-typed (np.ones(n, dtype=int), a python 1): for the first signal or for all
            "int_start": draw(st.sampled_from(["none", "none", "none", "first", "all"])),
            "move": draw(st.sampled_from([0.2, 0.1, 0.3, 0.5])) if conv else
            draw(st.one_of(st.sampled_from([0.2, 0.1, 0.05, 0.5, 0.01]), st.floats(0.01, 0.5))),
            "vol": draw(st.floats(0.02, 0.98)) if conv else
            draw(st.one_of(st.none(), st.floats(-0.15, 1.15), st.sampled_from([0.0, 1.0, 0.5, 0.3]))),
            "maxit": draw(st.sampled_from([40, 50, 60])) if conv else
            draw(st.sampled_from([1, 2, 3, 5, 8, 12, 20, 30, 40])),
            "tolx": 0.0 if conv else draw(st.sampled_from(["default", 0.0, 0.0, 1e-6, 1e-2])),
            "tolf": 0.0 if conv else draw(st.sampled_from(["default", 0.0, 0.0, 1e-6])),
            "l1l2tol": draw(st.sampled_from(["default", 1e-4, 1e-6, 1e-3, 1e-8])),
            "l2init": draw(st.sampled_from(["default", 1e5, 1e7, 1e3])),
            "gexp": draw(st.sampled_from([0, 0, 1, 2, 3, -1, -3])),  # objective scale 10**gexp
            "start": draw(st.sampled_from(["random", "uniform", "on_bound"])),
            "verbosity": draw(st.sampled_from([0, 0, 0, 1, 2])),
            "payload_seed": draw(st.integers(0, 2 ** 31 - 1)),
        })
        if c["var_form"] in ("slices", "fancy"):
            # slices of one design field: every variable is an array (scalar kinds would silently fall back to "signals")
            for sg in c["sigs"]:
                if sg["kind"] != "arr":
                    sg["kind"], sg["size"] = "arr", draw(st.integers(1, 6))
        return c

    return case()


def nontrivial(labels):
    return ("iters>=2" in labels and ("nsig>=2" in labels or "per_var_bounds" in labels)
            and "limit_active" in labels)


# ----------------------------------------------------------------------------------------------------------------
_MODS = {}


def _modules():
    if _MODS:
        return _MODS
    import pymoto as pym

    def flat(xs):
        return np.concatenate([np.atleast_1d(np.asarray(v, dtype=float)).ravel() for v in xs])

    def split_like(g, shapes):
        out, p = [], 0
        for shp in shapes:
            sz = int(np.prod(shp)) if len(shp) else 1
            piece = g[p:p + sz]
            out.append(float(piece[0]) if len(shp) == 0 else piece.reshape(shp).copy())
            p += sz
        return out

    class C17Recorder(pym.Module):
        """identity on all variable signals; keeps a log of what it saw"""

        def _prepare(self, log=None):
            self.log = log

        def _response(self, *xs):
            self.log["x"].append([(np.shape(x), np.array(x, dtype=float).copy()) for x in xs])
            self.shapes = [np.shape(x) for x in xs]
            return [np.array(x, dtype=float).copy() if np.ndim(x) else float(x) for x in xs]

        def _sensitivity(self, *dys):
            g = [np.zeros(shp) if dy is None else np.array(dy, dtype=float).copy() for dy, shp in zip(dys, self.shapes)]
            self.log["g"].append((len(self.log["x"]) - 1, flat(g)))
            return [gi if np.ndim(gi) else float(gi) for gi in g]

    class C17Recip(pym.Module):
        """f = s * sum c_i / x_i^q"""

        def _prepare(self, c=None, q=1, s=1.0):
            self.c, self.q, self.s = c, q, s

        def _response(self, *xs):
            self.shapes = [np.shape(x) for x in xs]
            self.x = flat(xs)
            return float(self.s * np.sum(self.c / self.x ** self.q))

        def _sensitivity(self, df):
            g = float(df) * (-self.q * self.s * self.c / self.x ** (self.q + 1))
            return split_like(g, self.shapes)

    class C17Simp(pym.Module):
        """concatenate the variable signals and apply E = emin + (1-emin) x^3"""

        def _prepare(self, emin=1e-3):
            self.emin = emin

        def _response(self, *xs):
            self.shapes = [np.shape(x) for x in xs]
            self.x = flat(xs)
            return self.emin + (1 - self.emin) * self.x ** 3

        def _sensitivity(self, dE):
            return split_like(np.asarray(dE, dtype=float) * 3 * (1 - self.emin) * self.x ** 2, self.shapes)

    _MODS.update({"pym": pym, "Recorder": C17Recorder, "Recip": C17Recip, "Simp": C17Simp, "flat": flat})
    return _MODS


def build_problem(case):
    rng = np.random.default_rng(case["payload_seed"])
    if case["obj"] == "fe":
        nel = case["nx"] * case["ny"]
        k = min(case["nsig"], nel)
        cuts = np.sort(rng.choice(np.arange(1, nel), k - 1, replace=False)) if k > 1 else np.array([], dtype=int)
        sizes = np.diff(np.concatenate([[0], cuts, [nel]])).astype(int).tolist()
        kinds = ["arr"] * k
    else:
        sizes = [s["size"] for s in case["sigs"]]
        kinds = [s["kind"] for s in case["sigs"]]
    n = int(np.sum(sizes))
    cum = np.concatenate([[0], np.cumsum(sizes)]).astype(int)
    lo0 = float(np.exp(rng.uniform(np.log(1e-3), np.log(0.3))))
    w0 = float(rng.uniform(0.3, 1.2))
    if case["xmin_form"] == "scalar":
        xmin_arg, xmin = lo0, np.full(n, lo0)
    else:
        xmin = lo0 * np.exp(rng.uniform(0, np.log(3.0), n))
        xmin_arg = xmin.copy()
    top = float(xmin.max())
    if case["xmax_form"] == "scalar":
        xmax_arg, xmax = top + w0, np.full(n, top + w0)
    else:
        xmax = top + w0 * rng.uniform(0.3, 1.0, n)
        xmax_arg = xmax.copy()
    bt = case.get("bound_type", "float")
    if bt in ("int", "int_lo"):
        if case["xmin_form"] == "scalar":
            xmin_arg = int(rng.integers(1, 3))
            xmin = np.full(n, float(xmin_arg))
        else:
            xmin_arg = rng.integers(1, 4, n)
            xmin = xmin_arg.astype(float)
        shift_up = float(xmin.max()) - top
        top = float(xmin.max())
        xmax, xmax_arg = xmax + shift_up, xmax_arg + shift_up
    if bt in ("int", "int_hi"):
        if case["xmax_form"] == "scalar":
            xmax_arg = int(math.ceil(top)) + int(rng.integers(1, 4))
            xmax = np.full(n, float(xmax_arg))
        else:
            xmax_arg = int(math.ceil(top)) + rng.integers(1, 5, n)
            xmax = xmax_arg.astype(float)
    dx = xmax - xmin
    if case["start"] == "uniform":
        x0 = xmin + rng.uniform(0.1, 0.9) * dx
    else:
        x0 = xmin + rng.uniform(0.0, 1.0, n) * dx
        if case["start"] == "on_bound":
            pick = rng.random(n)
            x0 = np.where(pick < 0.3, xmin, np.where(pick > 0.7, xmax, x0))
    int_sigs = []
    if case.get("int_start", "none") != "none" and case.get("var_form", "signals") in ("signals", "prealloc"):
        for i in range(len(sizes) if case["int_start"] == "all" else 1):
            sl = slice(int(cum[i]), int(cum[i + 1]))
            cand = np.ceil(xmin[sl])
            if np.all(cand <= xmax[sl]):           # an integer inside every box of this signal
                x0[sl] = cand
                int_sigs.append(i)
    vol = case["vol"]
    maxvol = None if vol is None else float(np.sum(xmin) + vol * np.sum(dx))
    kw = {"xmin": xmin_arg, "xmax": xmax_arg, "move": float(case["move"]), "maxit": case["maxit"],
          "verbosity": case["verbosity"]}
    if maxvol is not None:
        kw["maxvol"] = maxvol
    for key in ("tolx", "tolf", "l1l2tol", "l2init"):
        if case[key] != "default":
            kw[key] = case[key]
    prob = {"int_sigs": int_sigs, "n": n, "sizes": sizes, "kinds": kinds, "cum": cum, "xmin": xmin, "xmax": xmax, "x0": x0, "kw": kw,
            "maxvol": float(np.sum(x0)) if maxvol is None else maxvol,
            "tolx": 1e-4 if case["tolx"] == "default" else case["tolx"],
            "tolf": 1e-4 if case["tolf"] == "default" else case["tolf"],
            "l1l2tol": 1e-4 if case["l1l2tol"] == "default" else case["l1l2tol"],
            "l2init": 1e5 if case["l2init"] == "default" else case["l2init"],
            "scale": 10.0 ** case["gexp"]}
    if case["obj"] != "fe":
        prob["q"] = int(case["obj"][-1])
        prob["c"] = np.exp(rng.uniform(np.log(0.2), np.log(5.0), n))
        if case.get("czero", "none") != "none" and n >= 2:
            rz = np.random.default_rng([case["payload_seed"], 9])
            pick = rz.random(n) < 0.25
            pick[int(rz.integers(0, n))] = True
            if np.all(pick):
                pick[0] = False
            prob["c"][pick] = 0.0 if case["czero"] == "zero" else (0.3 - 0.1 - 0.2)
            prob["czero"] = True
    else:
        prob["fe_load"] = rng.standard_normal(2)
    return prob


def var_form(case, prob):
    form = case.get("var_form", "signals")
    if form in ("slices", "fancy") and any(kd != "arr" for kd in prob["kinds"]):
        form = "signals"
    return form


def _layout(case, form, kind, size):
    """(rows, cols, 'F' | 'T') for two in five cases with a plain array Signal whose size factorises, else None. Derived
    from the drawn payload seed (not an extra draw, so the generated stream of all other choices is unchanged)."""
    if form != "signals" or kind != "arr":
        return None
    how = [None, None, None, "F", "T"][case["payload_seed"] % 5]
    if how is None:
        return None
    r = next((d for d in (2, 3, 4, 5) if size % d == 0 and size // d >= 2), None)
    return None if r is None else (r, size // r, how)


def run_oc(case, prob, log):
    M = _modules()
    pym = M["pym"]
    cum = prob["cum"]
    variables = []
    form = var_form(case, prob)
    base = pym.Signal("xall", state=np.array(prob["x0"], dtype=float)) if form == "slices" else None
    if form == "fancy":
        # design variables selected from a larger field by index arrays (a non-design region stays fixed): the state
        # getter of such a slice returns a copy, every write has to go through the setter
        rngf = np.random.default_rng([case["payload_seed"], 5])
        ntot = prob["n"] + 3
        perm = rngf.permutation(ntot)
        field = rngf.uniform(0.2, 0.8, ntot)
        field[perm[:prob["n"]]] = prob["x0"]
        base = pym.Signal("field", state=field)
    for i, kind in enumerate(prob["kinds"]):
        v = prob["x0"][cum[i]:cum[i + 1]]
        state = float(v[0]) if kind == "pyfloat" else (np.float64(v[0]) if kind == "npfloat" else np.array(v))
        if i in prob.get("int_sigs", ()):
            state = int(v[0]) if kind == "pyfloat" else (np.int64(v[0]) if kind == "npfloat" else np.array(v).astype(int))
        lay = _layout(case, form, kind, len(v))
        if lay is not None:
            # a design held as a 2-D field (rows x columns) in Fortran order or as a transposed view: the design vector
            # is its row-major (logical) flattening whatever the memory layout; minimize_oc writes flat states back
            r, ccols, how = lay
            state = np.asfortranarray(state.reshape(r, ccols)) if how == "F" else np.ascontiguousarray(state.reshape(r, ccols).T).T
        if form == "slices":
            variables.append(base[int(cum[i]):int(cum[i + 1])])
        elif form == "fancy":
            variables.append(base[perm[int(cum[i]):int(cum[i + 1])]])
        elif form == "prealloc" and kind == "arr":
            variables.append(pym.Signal(f"x{i}", state=state, sensitivity=np.zeros(np.shape(state))))
        else:
            variables.append(pym.Signal(f"x{i}", state=state))
    net = pym.Network()
    rec_out = net.append(M["Recorder"](variables, [pym.Signal(f"xr{i}") for i in range(len(variables))], log=log))
    rec_out = rec_out if isinstance(rec_out, (list, tuple)) else [rec_out]
    if case["obj"] != "fe":
        obj = net.append(M["Recip"](list(rec_out), c=prob["c"], q=prob["q"], s=prob["scale"]))
    else:
        nx, ny = case["nx"], case["ny"]
        dom = pym.DomainDefinition(nx, ny)
        bn = dom.get_nodenumber(0, np.arange(ny + 1))
        bc = np.concatenate([2 * bn, 2 * bn + 1])
        f = np.zeros(dom.nnodes * 2)
        tip = dom.get_nodenumber(nx, ny // 2)
        f[2 * tip:2 * tip + 2] = prob["fe_load"]
        sE = net.append(M["Simp"](list(rec_out)))
        sK = net.append(pym.AssembleStiffness(sE, domain=dom, bc=bc))
        su = net.append(pym.LinSolve([sK, pym.Signal("f", state=f)]))
        sc = net.append(pym.EinSum([su, pym.Signal("f2", state=f)], expression="i,i->"))
        obj = net.append(pym.Scaling(sc, scaling=prob["scale"] * 10.0))
    log["variables"] = variables
    with contextlib.redirect_stdout(io.StringIO()):
        if case.get("pre_sens"):
            # evaluated and back-propagated once by the user before the optimisation (sensitivities still in the network)
            net.response()
            obj.sensitivity = 1.0
            net.sensitivity()
            log["x"].clear()
            log["g"].clear()
        pym.minimize_oc(net, variables if len(variables) > 1 or case["payload_seed"] % 2 else variables[0], obj,
                        **prob["kw"])
    log["final"] = [(np.shape(s.state), np.array(s.state, dtype=float).copy()) for s in variables]


# ----------------------------------------------------------------------------------------------------------------
# oracle: OC map and exact multiplier
def oc_map(x, g, lam, lo, hi):
    """clip(x sqrt(-g/lam), lo, hi) written per component; lam = 0 means the limit lam -> 0+."""
    out = np.empty_like(x)
    for i in range(len(x)):
        if lam == 0.0:
            t = math.inf if (-g[i]) > 0 and x[i] > 0 else 0.0
        else:
            t = x[i] * math.sqrt(-g[i] / lam)
        out[i] = min(max(t, lo[i]), hi[i])
    return out


def exact_multiplier(x, g, lo, hi, T, l2init):
    """l* = inf{l > 0 : V(l) <= T} for the non-increasing V(l) = sum oc_map; returns (l*, status) with status in
    'zero' (V(0+) <= T), 'inside', 'above' (V(l2init) > T)."""
    if float(np.sum(oc_map(x, g, 0.0, lo, hi))) <= T:
        return 0.0, "zero"
    if float(np.sum(oc_map(x, g, l2init, lo, hi))) > T:
        return math.inf, "above"
    a, b = 0.0, float(l2init)
    for _ in range(200):
        mid = 0.5 * (a + b)
        if mid == a or mid == b:
            break
        if float(np.sum(oc_map(x, g, mid, lo, hi))) > T:
            a = mid
        else:
            b = mid
    return b, "inside"


def waterfill_recip(c, xmin, xmax, T):
    """argmin sum c_i/x_i s.t. sum x = T (T within [sum xmin, sum xmax]), xmin <= x <= xmax: x_i = clip(sqrt(c_i/l))."""
    def xof(l):
        with np.errstate(all="ignore"):
            r = np.where(c > 0, np.sqrt(c / max(l, 1e-300)), 0.0)       # c_i = 0: the variable goes to its lower bound
        return np.clip(r, xmin, xmax)
    a, b = 1e-300, 1.0
    while np.sum(xof(b)) > T:
        b *= 4
    a = b
    while np.sum(xof(a)) < T and a > 1e-290:
        a /= 4
    for _ in range(400):
        mid = math.sqrt(a * b) if a > 0 else 0.5 * b
        if np.sum(xof(mid)) > T:
            a = mid
        else:
            b = mid
    return xof(b), b



def _in_thread(fn, *args):
    """Run fn in a fresh thread: pyMOTO calls inspect.stack() for every Signal/Module it constructs, whose cost is
    proportional to the stack depth (40 ms under Hypothesis' deep stack). Results are identical; exceptions re-raised."""
    box = {}

    def target():
        try:
            box["r"] = fn(*args)
        except BaseException as e:  # re-raised in the caller below
            box["e"] = e

    t = threading.Thread(target=target)
    t.start()
    t.join()
    if "e" in box:
        raise box["e"]
    return box.get("r")


def check_case(case, _debug=None):
    prob = build_problem(case)
    n, k = prob["n"], len(prob["sizes"])
    xmin, xmax, move, T = prob["xmin"], prob["xmax"], float(case["move"]), prob["maxvol"]
    tol, l2init = prob["l1l2tol"], prob["l2init"]
    labels = [f"obj:{case['obj']}", "nsig>=2" if k >= 2 else "nsig:1", f"xmin:{case['xmin_form']}",
              f"xmax:{case['xmax_form']}", "maxvol:default" if case["vol"] is None else "maxvol:given",
              f"l1l2tol:{case['l1l2tol']}", f"gexp:{case['gexp']}"]
    labels.append("bounds:" + case.get("bound_type", "float"))
    labels.append("variables:" + var_form(case, prob))
    if any(_layout(case, var_form(case, prob), kd, sz) for kd, sz in zip(prob["kinds"], prob["sizes"])):
        labels.append("layout:2d_non_c_contiguous")
    if prob.get("int_sigs"):
        labels.append("integer_initial_state" + ("_mixed_with_float" if len(prob["int_sigs"]) < len(prob["sizes"]) else ""))
    if case.get("pre_sens"):
        labels.append("sensitivities_left_before_start")
    if "per_var" in (case["xmin_form"], case["xmax_form"]):
        labels.append("per_var_bounds")
    if any(kd != "arr" for kd in prob["kinds"]):
        labels.append("scalar_signal")
    V, seen = [], set()

    def bad(bucket, detail):
        if bucket not in seen:
            seen.add(bucket)
            V.append(viol(f"C17:{bucket}", detail))

    log = {"x": [], "g": []}
    try:
        _in_thread(run_oc, case, prob, log)
    except Exception as e:
        import traceback
        tb = traceback.extract_tb(e.__traceback__)
        where = next((fr.name for fr in reversed(tb) if "/pymoto/" in fr.filename), "unknown")
        bad(f"raises:{where}:{type(e).__name__}", traceback.format_exc()[-900:])
    flat = _modules()["flat"]
    X = [flat([v for _, v in rec]) for rec in log["x"]]
    G = {idx: g for idx, g in log["g"]}
    nresp = len(X)
    labels.append("iters>=2" if nresp >= 2 else "iters<2")
    if nresp == 0:
        return labels, V
    if X[0].shape != (n,) or not np.array_equal(X[0], prob["x0"]):
        bad("writeback:initial", f"first evaluated design {X[0]} differs from the start {prob['x0']}")
        return labels, V
    designs = list(X)
    if "final" in log:
        xf = flat([v for _, v in log["final"]])
        designs.append(xf)  # the states left in the signals when minimize_oc returned
    stats = {"claimed": 0, "unreachable": 0, "volerr": 0.0}
    limit_active = False
    for i in range(len(designs) - 1):
        x, y = designs[i], designs[i + 1]
        last = (i + 1 == len(designs) - 1) and "final" in log
        if y.shape != (n,):
            bad("writeback:size", f"transition {i}: design has {y.shape[0]} entries, expected {n}")
            break
        if i not in G:
            # no sensitivity pass after response i: minimize_oc stopped on tolf; the signals must be unchanged
            if not (last and np.array_equal(x, y)):
                bad("writeback:changed_without_update", f"transition {i}: design changed without a sensitivity pass")
            continue
        g = np.minimum(G[i], 0.0)
        if np.any(G[i] > 1e-15):
            labels.append("positive_gradient")  # outside the quantifier (minimize_oc warns and clips)
            continue
        if np.any(G[i] >= 0):
            labels.append("zero_gradient_entries")   # exactly 0 or positive at round-off level: clipped to 0 by the code
        lo = np.maximum(xmin, x - move)
        hi = np.minimum(xmax, x + move)
        lstar, status = exact_multiplier(x, g, lo, hi, T, l2init)
        if status == "above":
            la, lb = (l2init - tol) * (1 - 1e-9), l2init
        else:
            la, lb = max(lstar * (1 - 1e-9) - tol, 0.0), (lstar + tol) * (1 + 1e-9)
        y_hi = oc_map(x, g, la, lo, hi)  # components are non-increasing in the multiplier
        y_lo = oc_map(x, g, lb, lo, hi)
        if last and i == nresp - 1 and np.array_equal(x, y) and prob["tolx"] > 0:
            # possible legitimate stop on tolx: the computed update was discarded
            # lower bound of |x - X(l)| over the admissible multipliers (components of X are monotone in l)
            dmin = np.where((x >= y_lo) & (x <= y_hi), 0.0, np.minimum(np.abs(x - y_lo), np.abs(x - y_hi)))
            if np.linalg.norm(dmin) / np.linalg.norm(x) < prob["tolx"] * (1 + 1e-6):
                labels.append("stopped_on_tolx")
                continue
        # ---- bounds and move limit
        if np.any(y < xmin) or np.any(y > xmax):
            j = int(np.argmax(np.maximum(xmin - y, y - xmax)))
            bad("bounds", f"transition {i}: x[{j}]={y[j]!r} outside [{xmin[j]!r}, {xmax[j]!r}]")
        step = np.abs(y - x)
        lim = move * (1 + 1e-12) + 4e-16 * np.abs(x)
        if np.any(step > lim):
            j = int(np.argmax(step - lim))
            bad("move_limit", f"transition {i}: |dx[{j}]|={step[j]!r} > move={move!r}")
        if np.any((y <= lo) | (y >= hi)):
            limit_active = True
        # ---- OC map / write-back: component-wise sandwich
        slack = 1e-12 * (1 + np.abs(y))
        if np.any(y < y_lo - slack) or np.any(y > y_hi + slack):
            j = int(np.argmax(np.maximum(y_lo - y, y - y_hi)))
            sig = int(np.searchsorted(prob["cum"], j, side="right") - 1)
            bad("writeback:design_differs_from_oc_update",
                f"transition {i}: x[{j}] (signal {sig}) = {y[j]!r}, OC update with multiplier in [{la:.6g},{lb:.6g}] "
                f"gives [{y_lo[j]!r}, {y_hi[j]!r}]; status {status}, nsig={k}, sizes={prob['sizes']}")
        # ---- volume
        reachable = float(np.sum(lo)) <= T <= float(np.sum(hi))
        if reachable and status != "above":
            stats["claimed"] += 1
            vobs, v1, v2 = float(np.sum(y)), float(np.sum(y_lo)), float(np.sum(y_hi))
            vs = 1e-12 * (1 + abs(T)) * n
            stats["volerr"] = max(stats["volerr"], abs(vobs - T))
            if vobs < v1 - vs or vobs > v2 + vs:
                bad("volume", f"transition {i}: volume {vobs!r}, maxvol {T!r}; multipliers within l1l2tol={tol} of the exact "
                              f"one ({lstar:.8g}) give volumes in [{v1!r}, {v2!r}]")
        else:
            stats["unreachable"] += 1
    if limit_active:
        labels.append("limit_active")
    labels.append("volume_claimed" if stats["claimed"] else "volume_never_claimed")
    if stats["unreachable"]:
        labels.append("some_unreachable")
    # ---- types of the states that were written back
    for rec in log["x"][1:]:
        for sidx, ((shp, val), sz) in enumerate(zip(rec, prob["sizes"])):
            if int(np.prod(shp)) != sz:
                bad("writeback:signal_size", f"signal {sidx} of size {sz} received a state of shape {shp}")
    # ---- convergence for sum c_i / x_i
    if case["obj"] == "recip1" and "final" in log and designs[-1].shape == (n,):
        if float(np.sum(xmin)) <= T <= float(np.sum(xmax)) and prob["tolx"] == 0 and prob["tolf"] == 0:
            xs, ls = waterfill_recip(np.maximum(prob["c"], 0.0) * prob["scale"], xmin, xmax, T)
            # move-limited variables advance by `move` per iteration; free ones may overshoot by at most the box width
            need = (math.ceil(float(np.max(np.abs(prob["x0"] - xs))) / move)
                    + math.ceil(float(np.max(xmax - xmin)) / move) + 6)
            if _debug is not None and ls * (1 + 1e-9) + tol < l2init:
                cs_ = np.maximum(prob["c"], 0.0) * prob["scale"]
                bh = np.clip(np.sqrt(cs_ / max(ls - tol, 1e-300)), xmin, xmax)
                bl = np.clip(np.sqrt(cs_ / (ls + tol)), xmin, xmax)
                first = next((i_ for i_, d_ in enumerate(designs) if np.all(d_ >= bl - 1e-9) and np.all(d_ <= bh + 1e-9)), None)
                _debug["first_conv"] = first
                _debug["dist_steps"] = math.ceil(float(np.max(np.abs(prob["x0"] - xs))) / move)
                _debug["ndesigns"] = len(designs)
            # the multiplier is only found to within the bisection tolerance; when that is not small against the
            # multiplier itself the move-limited iteration may legitimately cycle between grid values of the bisection
            # (volume over/under-shoot), so the claim is made only for tol <= 2% of the multiplier
            if ls * (1 + 1e-9) + tol < l2init and case["maxit"] >= need and tol <= 0.02 * ls \
                    and np.any((xs > xmin * (1 + 1e-6)) & (xs < xmax * (1 - 1e-6))):   # a free variable: unique multiplier
                labels.append("convergence_claimed")
                lo_l, hi_l = max(ls - tol, 0.0), ls + tol
                cs = np.maximum(prob["c"], 0.0) * prob["scale"]
                band_hi = np.clip(np.sqrt(cs / lo_l) if lo_l > 0 else np.full(n, np.inf), xmin, xmax)
                band_lo = np.clip(np.sqrt(cs / hi_l), xmin, xmax)
                err = np.maximum(band_lo - designs[-1], designs[-1] - band_hi)
                if _debug is not None:
                    _debug["conv_err"] = float(err.max())
                    _debug["conv_dist"] = float(np.max(np.abs(designs[-1] - xs)))
                if np.any(err > 1e-3):
                    j = int(np.argmax(err))
                    bad("convergence", f"final x[{j}]={designs[-1][j]!r}, analytic optimum {xs[j]!r} (band "
                                       f"[{band_lo[j]!r}, {band_hi[j]!r}] for the bisection tolerance); maxit={case['maxit']}, "
                                       f"needed about {need}")
    if _debug is not None:
        _debug.update(stats)
        _debug["nresp"] = nresp
    return list(dict.fromkeys(labels)), V
