"""C02 — network backpropagation yields the total derivative of any module graph (DESIGN §3 C02).

A case is a *program*: sources, a list of node specs (each consuming earlier signals, optionally through slices, and
producing a new signal or filling part of a buffer signal through an output slice), seeds, and a nesting plan.
The oracle is an independent forward-mode accumulation with exact Jacobians written here.
"""
import numpy as np
from hypothesis import strategies as st
from pbt.harness import viol
from pbt.common import SEED, richardson

PROPERTY_ID = "C02"
RULE = ("case = program: 1-4 sources (vectors; optionally one 2x n matrix consumed through tuple slices), 2-10 nodes drawn "
        "from user-defined modules with exact Jacobians (tanh, cube, dense linear, bilinear two-input, two-input sum returning "
        "one array object as adjoint of both inputs, two-output, "
        "reduction) and library modules (EinSum, MathGeneral, ConcatSignal, FilterConv), wiring features drawn "
        "explicitly: fan-out, same signal twice, input slices (basic/step/integer-array/nested/tuple), output slices "
        "into a shared buffer, nested Network objects (constructor / append / dict spec), several seeded signals incl. "
        "intermediates, unseeded branches. Oracle: forward-mode accumulation of exact Jacobians -> sum J^T w per "
        "source (1e-10), states compared with an own evaluation, a sample cross-checked by Richardson differences. "
        "Non-trivial = >=1 of fan-out/slice/nesting and >=2 paths from a source to a seeded signal.")
ASSUMPTIONS = [
    "real-valued vector signals (complex chains are exercised per module in C01)",
    "library-node Jacobians are written by hand (EinSum i,i->i ; MathGeneral expressions ; ConcatSignal) or, for the "
    "linear FilterConv node, taken from a separate instance's unit responses (its forward map is C09's subject)",
    "integer-array slices without repeats; no writes through nested fancy slices (as in C18)",
]

KINDS = ["tanh", "cube", "lin", "bilin", "twoout", "sum", "einsum_mul", "math_a", "math_b", "concat", "fill2",
         "filterconv", "tanh", "lin", "bilin", "sumlin", "sumlin", "sum3", "cplx", "dyad"]


def budget(tier):
    return {"examples": 4000 if tier == "quick" else 60000, "shards": 16, "shrink": 300 if tier == "quick" else 2000}


# print_timing option of Network: off, on, or a threshold in seconds (never / always reached); it only adds printing
TIMING = [False, False, False, True, 1e9, 0.0]


def strategy(tier):
    big = tier != "quick"
    ref = st.integers(0, 40)
    slc = st.one_of(st.none(), st.none(),
                    st.fixed_dictionaries({"t": st.just("basic"), "a": st.integers(0, 3), "len": st.integers(1, 4),
                                           "step": st.sampled_from([1, 1, 2])}),
                    st.fixed_dictionaries({"t": st.just("fancy"), "seed": st.integers(0, 1000)}),
                    st.fixed_dictionaries({"t": st.just("nested"), "a": st.integers(0, 2), "len": st.integers(2, 4),
                                           "a2": st.integers(0, 1), "len2": st.integers(1, 2)}))
    node = st.fixed_dictionaries({"kind": st.sampled_from(KINDS), "in": st.lists(ref, min_size=2, max_size=2),
                                  "slc": st.lists(slc, min_size=2, max_size=2), "m": st.integers(1, 4)})
    nest = st.lists(st.fixed_dictionaries({"start": st.integers(0, 12), "len": st.integers(1, 6),
                                           "mode": st.sampled_from(["ctor", "append", "dict", "ctor_list"]),
                                           "timing": st.sampled_from(TIMING)}),
                    max_size=3)
    return st.fixed_dictionaries({
        "sources": st.lists(st.integers(1, 4), min_size=1, max_size=4),
        "matsrc": st.booleans(),
        "nodes": st.lists(node, min_size=2, max_size=14 if big else 10),
        "seeds": st.lists(ref, min_size=1, max_size=4),
        "nest": nest,
        "timing": st.sampled_from(TIMING),      # print_timing option of the top-level network
        # incremental build (as in examples/topology_optimization/ex_compliance.py): the top network is created from the
        # first part of the modules, evaluated and back-propagated once, and the rest is append()-ed afterwards
        "incremental": st.one_of(st.none(), st.none(), st.integers(1, 12)),
        # common magnitude of all seeds: the total derivative is linear in the seeds, so tiny or huge adjoints must
        # propagate exactly like O(1) ones (compared relative to the expected magnitude)
        "seed_scale": st.sampled_from([1.0, 1.0, 1.0, 1e-9, 1e-12, 1e7]),
        "payload_seed": SEED,
    })


def nontrivial(labels):
    return "multipath" in labels and ("fanout" in labels or "slice" in labels or "nested" in labels)


# ----------------------------------------------------------------------------------------------------------------
# user-defined modules (exact Jacobians); created lazily so that pymoto is imported from the tree under test
_MODS = {}


def mods():
    if _MODS:
        return _MODS
    import pymoto as pym

    class C02Tanh(pym.Module):
        def _response(self, x):
            self.y = np.tanh(x)
            return self.y

        def _sensitivity(self, dy):
            return dy * (1 - self.y ** 2)

    class C02Cube(pym.Module):
        def _response(self, x):
            self.x = np.array(x, copy=True)
            return x ** 3 + x

        def _sensitivity(self, dy):
            return dy * (3 * self.x ** 2 + 1)

    class C02Lin(pym.Module):
        def _prepare(self, M):
            self.M = M

        def _response(self, x):
            return self.M @ x

        def _sensitivity(self, dy):
            return self.M.T @ dy

    class C02Bilin(pym.Module):
        def _prepare(self, A, B):
            self.A, self.B = A, B

        def _response(self, x1, x2):
            self.a, self.b = self.A @ x1, self.B @ x2
            return self.a * self.b

        def _sensitivity(self, dy):
            return self.A.T @ (dy * self.b), self.B.T @ (dy * self.a)

    class C02TwoOut(pym.Module):
        def _prepare(self, P, Q):
            self.P, self.Q = P, Q

        def _response(self, x):
            self.t = np.tanh(self.Q @ x)
            return self.P @ x, self.t

        def _sensitivity(self, d1, d2):   # tolerates None seeds
            g = 0.0
            if d1 is not None:
                g = g + self.P.T @ d1
            if d2 is not None:
                g = g + self.Q.T @ (d2 * (1 - self.t ** 2))
            return g

    class C02SumSq(pym.Module):
        def _response(self, x):
            self.x = np.array(x, copy=True)
            return np.array([np.sum(x * x)])

        def _sensitivity(self, dy):
            return 2 * self.x * dy[0]

    class C02SumLin(pym.Module):
        """y = A (x1 + x2); the adjoint is the same for both inputs and is returned as one and the same array object"""
        def _prepare(self, A):
            self.A = A

        def _response(self, x1, x2):
            return self.A @ (x1 + x2)

        def _sensitivity(self, dy):
            g = self.A.T @ dy
            return g, g

    class C02Sum3Lin(pym.Module):
        """y = A (x1 + x2 + x3); returns ONE array object as the adjoint of all three inputs (legitimate: pyMOTO's own
        test_identical_sensitivity does it). Used with the same Signal on the first two inputs and another one third."""
        def _prepare(self, A):
            self.A = A

        def _response(self, x1, x2, x3):
            return self.A @ (x1 + x2 + x3)

        def _sensitivity(self, dy):
            g = self.A.T @ dy
            return g, g, g

    class C02Flat(pym.Module):
        """y = x.ravel() for an input of any shape (used to consume 2-D slices)"""
        def _response(self, x):
            self.shape = np.shape(x)
            return np.ravel(x).copy()

        def _sensitivity(self, dy):
            return np.reshape(dy, self.shape)

    class C02Diag(pym.Module):
        """A = diag(x) as a sparse matrix; the matrix sensitivity arrives as a DyadCarrier (or an array)"""
        def _response(self, x):
            import scipy.sparse as sps
            return sps.diags(np.asarray(x, dtype=float)).tocsc()

        def _sensitivity(self, dA):
            return np.asarray(dA.diagonal() if isinstance(dA, pym.DyadCarrier) else dA.diagonal(), dtype=float)

    class C02MatSum(pym.Module):
        """C = A + B for two matrices; the adjoint is the same for both and is returned as one and the same object"""
        def _response(self, A, B):
            return A + B

        def _sensitivity(self, dC):
            return dC, dC

    class C02MatVec(pym.Module):
        """y = A v for a fixed vector v; the adjoint with respect to the (sparse) matrix is the dyad dy v^T"""
        def _prepare(self, v):
            self.v = v

        def _response(self, A):
            return A @ self.v

        def _sensitivity(self, dy):
            return pym.DyadCarrier(np.array(dy, dtype=float), self.v.copy())

    _MODS["diag"], _MODS["matsum"], _MODS["matvec"] = C02Diag, C02MatSum, C02MatVec
    _MODS["flat"] = C02Flat
    _MODS["sumlin"] = C02SumLin
    _MODS["sum3"] = C02Sum3Lin
    _MODS.update(dict(tanh=C02Tanh, cube=C02Cube, lin=C02Lin, bilin=C02Bilin, twoout=C02TwoOut, sum=C02SumSq))
    return _MODS


# ----------------------------------------------------------------------------------------------------------------
class Sig:
    """Model of one (base) signal: value and Jacobian w.r.t. all sources; .real is the pymoto Signal."""
    def __init__(self, real, val, jac):
        self.real, self.val, self.jac = real, val, jac
        self.consumers = 0
        self.twoD = False      # .real holds a 2-D state; val/jac are its row-major flattening


def resolve_slice(spec, n, rng_unused=None):
    """Returns (python index object(s) applied successively, numpy row selector) for a 1-D signal of length n."""
    if spec is None or n < 1:
        return [], np.arange(n)
    t = spec["t"]
    if t == "basic":
        a = spec["a"] % n
        ln = max(1, min(spec["len"], (n - a + spec["step"] - 1) // spec["step"]))
        sl = slice(a, a + (ln - 1) * spec["step"] + 1, spec["step"])
        return [sl], np.arange(n)[sl]
    if t == "fancy":
        r = np.random.default_rng(spec["seed"])
        k = int(r.integers(1, n + 1))
        idx = r.permutation(n)[:k]
        return [idx], idx
    if t == "nested":
        a = spec["a"] % n
        ln = max(1, min(spec["len"], n - a))
        s1 = slice(a, a + ln)
        a2 = spec["a2"] % ln
        l2 = max(1, min(spec["len2"], ln - a2))
        s2 = slice(a2, a2 + l2)
        return [s1, s2], np.arange(n)[s1][s2]
    raise ValueError(t)


def check_case(case):
    import contextlib
    import io
    with contextlib.redirect_stdout(io.StringIO()):      # print_timing writes to stdout
        return _check_case(case)


def _check_case(case):
    import pymoto as pym
    M = mods()
    rng = np.random.default_rng(case["payload_seed"])
    labels, V = [], []

    def bad(kind, detail):
        V.append(viol(f"C02:{kind}", f"{detail} | case={case}"))

    # ---------------- sources
    src_sizes = list(case["sources"])
    matsrc = case["matsrc"]
    ntot = sum(src_sizes) + (2 * 3 if matsrc else 0)
    sigs = []        # 1-D "addressable" signals: list of dict(real=Signal or SignalSlice, val, jac)
    sources = []     # (real base signal, offset, size, shape)
    off = 0
    for k, n in enumerate(src_sizes):
        val = rng.uniform(-1, 1, n)
        s = pym.Signal(f"src{k}", val.copy())
        J = np.zeros((n, ntot))
        J[:, off:off + n] = np.eye(n)
        sigs.append(Sig(s, val, J))
        sources.append((s, off, n, (n,)))
        off += n
    if matsrc:
        val = rng.uniform(-1, 1, (2, 3))
        s = pym.Signal("msrc", val.copy())
        sources.append((s, off, 6, (2, 3)))
        Jm = np.zeros((6, ntot))
        Jm[:, off:off + 6] = np.eye(6)
        # consumed only through tuple slices: expose row 1 and column 2 as 1-D signals
        sigs.append(Sig(s[1, :], val[1, :], Jm.reshape(2, 3, ntot)[1, :, :]))
        sigs.append(Sig(s[:, 2], val[:, 2], Jm.reshape(2, 3, ntot)[:, 2, :]))
        # mixed basic/advanced tuple slices of the 2-D source (numpy returns copies, some of them with a non-None .base):
        # column selection by index array, row range + index array, boolean column mask. They stay 2-D and are consumed
        # through a flattening module.
        Jm3 = Jm.reshape(2, 3, ntot)
        for idx in ((slice(None), np.array([0, 2])), (slice(1, None), np.array([2, 0])),
                    (slice(None), np.array([True, False, True]))):
            sg2 = Sig(s[idx], val[idx].ravel(), Jm3[idx].reshape(-1, ntot))
            sg2.twoD = True
            sigs.append(sg2)
        labels.append("tuple_slice")
        labels.append("slice")
        off += 6

    modules = []

    def take(ref, spec):
        """Input operand: (signal object to wire, value, jacobian). ref is taken modulo the current pool size."""
        return take_abs(ref % len(sigs), spec)

    def take_abs(index, spec):
        sg = sigs[index]
        sg.consumers += 1
        if sg.twoD:
            # consume the 2-D slice through a flattening module; the flattened copy becomes an ordinary 1-D signal
            flat = pym.Signal(f"flat{len(sigs)}")
            modules.append(M["flat"](sg.real, flat))
            sg = Sig(flat, sg.val.copy(), sg.jac.copy())
            sigs.append(sg)
            sg.consumers += 1
            labels.append("slice:mixed_2d")
        n = sg.val.size
        idxs, rows = resolve_slice(spec, n)
        real = sg.real
        for ix in idxs:
            real = real[ix]
        if idxs:
            labels.append("slice")
            labels.append("slice:" + spec["t"])
        return real, sg.val[rows], sg.jac[rows, :], sg

    def new_sig(tag, val, jac):
        s = pym.Signal(tag)
        sg = Sig(s, np.asarray(val, dtype=float), jac)
        sigs.append(sg)
        return s

    for inode, nd in enumerate(case["nodes"]):
        kind, m = nd["kind"], nd["m"]
        slc0 = None if kind in ("sumlin", "sum3") else nd["slc"][0]   # sumlin/sum3 take whole signals
        idx0 = nd["in"][0] % len(sigs)                         # resolved once: the pool may grow while operands are taken
        r0, v0, J0, g0 = take_abs(idx0, slc0)
        if sigs[idx0].twoD:
            idx0 = len(sigs) - 1                               # the flattened copy that was just appended
        n0 = v0.size
        tag = f"n{inode}"
        if kind == "tanh":
            y = np.tanh(v0)
            modules.append(M["tanh"](r0, new_sig(tag, y, (1 - y ** 2)[:, None] * J0)))
        elif kind == "cube":
            modules.append(M["cube"](r0, new_sig(tag, v0 ** 3 + v0, (3 * v0 ** 2 + 1)[:, None] * J0)))
        elif kind == "sum":
            modules.append(M["sum"](r0, new_sig(tag, np.array([np.sum(v0 * v0)]), (2 * v0)[None, :] @ J0)))
        elif kind == "lin":
            A = rng.uniform(-1, 1, (m, n0))
            modules.append(M["lin"](r0, new_sig(tag, A @ v0, A @ J0), A))
        elif kind == "twoout":
            P, Q = rng.uniform(-1, 1, (m, n0)), rng.uniform(-1, 1, (2, n0))
            t = np.tanh(Q @ v0)
            o1 = new_sig(tag + "a", P @ v0, P @ J0)
            o2 = new_sig(tag + "b", t, (1 - t ** 2)[:, None] * (Q @ J0))
            modules.append(M["twoout"](r0, [o1, o2], P, Q))
            labels.append("two_outputs")
        elif kind == "cplx":
            # a complex intermediate signal z = x1 + i x2 (MakeComplex) consumed through a slice by RealPart / ImagPart /
            # ComplexNorm: the slice allocates the sensitivity of the complex signal
            if slc0 is not None:
                r1, v1, J1, g1 = take_abs(idx0, slc0)
            else:
                cand = [i for i, s in enumerate(sigs) if s.val.size == n0 and not s.twoD]
                r1, v1, J1, g1 = take(cand[nd["in"][1] % len(cand)], None)
            z = pym.Signal(f"z{inode}")
            modules.append(pym.MakeComplex([r0, r1], z))
            a = (nd["in"][1] % n0)
            ln = 1 + (nd["m"] % max(1, n0 - a))
            if nd["in"][0] % 3 == 0 and n0 >= 2:
                rows = np.array(sorted({a, (a + ln) % n0}))      # integer-array slice (no repeats)
                zs = z[rows]
            else:
                rows = np.arange(a, min(a + ln, n0))
                zs = z[int(rows[0]):int(rows[-1]) + 1]
            which = nd["m"] % 3
            if which == 0:
                modules.append(pym.RealPart(zs, new_sig(tag, v0[rows], J0[rows])))
            elif which == 1:
                modules.append(pym.ImagPart(zs, new_sig(tag, v1[rows], J1[rows])))
            else:
                rr = np.sqrt(v0[rows] ** 2 + v1[rows] ** 2)
                if np.any(rr < 1e-3):
                    modules.append(pym.RealPart(zs, new_sig(tag, v0[rows], J0[rows])))
                else:
                    modules.append(pym.ComplexNorm(zs, new_sig(tag, rr, (v0[rows, None] * J0[rows] + v1[rows, None] * J1[rows])
                                                               / rr[:, None])))
            labels.append("complex_signal_through_slice")
            labels.append("slice")
        elif kind == "sum3":
            # the same signal on inputs 1 and 2, a different one of the same length (if there is one) on input 3
            cand = [i for i, s in enumerate(sigs) if s.val.size == n0 and s is not g0 and not s.twoD]
            if cand:
                r2, v2, J2, g2 = take(cand[nd["in"][1] % len(cand)], None)
                labels.append("repeated_input_plus_other")
            else:
                r2, v2, J2, g2 = take_abs(idx0, None)
            A = rng.uniform(-1, 1, (m, n0))
            modules.append(M["sum3"]([r0, r0, r2], new_sig(tag, A @ (2 * v0 + v2), A @ (2 * J0 + J2)), A))
            g0.consumers += 1
            labels.append("shared_adjoint_object")
            labels.append("same_signal_twice")
        elif kind == "dyad":
            # matrix-valued intermediate signals whose sensitivities are DyadCarriers: A = diag(x0), B = diag(x1),
            # y1 = A v1 (a consumer of A placed BEFORE the sum, so back-propagated after it), C = A + B (adjoint returned as
            # one object for both inputs), y2 = C v2, z = Am (y1 + y2)
            cand = [i for i, s_ in enumerate(sigs) if s_.val.size == n0 and not s_.twoD and s_ is not g0]
            if slc0 is not None or not cand:
                r1, v1, J1, g1 = take_abs(idx0, slc0)
            else:
                r1, v1, J1, g1 = take(cand[nd["in"][1] % len(cand)], None)
            sA, sB, sC = pym.Signal(tag + "A"), pym.Signal(tag + "B"), pym.Signal(tag + "C")
            sy1, sy2 = pym.Signal(tag + "y1"), pym.Signal(tag + "y2")
            w1, w2 = rng.uniform(-1, 1, n0), rng.uniform(-1, 1, n0)
            Am = rng.uniform(-1, 1, (m, n0))
            order = nd["in"][1] % 3
            chain = [M["diag"](r0, sA), M["diag"](r1, sB)]
            mv1, ms, mv2 = M["matvec"](sA, sy1, w1), M["matsum"]([sA, sB], sC), M["matvec"](sC, sy2, w2)
            chain += [mv1, ms, mv2] if order == 0 else ([ms, mv1, mv2] if order == 1 else [ms, mv2, mv1])
            zval = Am @ (w1 * v0 + w2 * (v0 + v1))
            zjac = Am @ (w1[:, None] * J0 + w2[:, None] * (J0 + J1))
            chain.append(M["sumlin"]([sy1, sy2], new_sig(tag, zval, zjac), Am))
            modules.extend(chain)
            g0.consumers += 1
            labels.append("dyadcarrier_sensitivities")
            labels.append("shared_adjoint_object")
            if g1 is g0:
                labels.append("same_signal_twice")
        elif kind in ("bilin", "einsum_mul", "math_a", "math_b", "concat", "sumlin"):
            if kind in ("einsum_mul", "math_a", "math_b", "sumlin"):
                # elementwise: second operand must have the same length; otherwise use the same operand twice
                cand = [i for i, s in enumerate(sigs) if s.val.size == n0]
                if kind == "sumlin" and len(cand) > 1:
                    cand = [i for i in cand if sigs[i] is not g0]
                if slc0 is not None or not cand:
                    # first operand is sliced (or unique in length): pair it with the same expression
                    r1, v1, J1, g1 = take_abs(idx0, slc0)
                else:
                    r1, v1, J1, g1 = take(cand[nd["in"][1] % len(cand)], None)
            else:
                r1, v1, J1, g1 = take(nd["in"][1], nd["slc"][1])
            if g1 is g0:
                labels.append("same_signal_twice")
            n1 = v1.size
            if kind == "bilin":
                A, B = rng.uniform(-1, 1, (m, n0)), rng.uniform(-1, 1, (m, n1))
                a, b = A @ v0, B @ v1
                modules.append(M["bilin"]([r0, r1], new_sig(tag, a * b, b[:, None] * (A @ J0) + a[:, None] * (B @ J1)),
                                          A, B))
            elif kind == "sumlin":
                A = rng.uniform(-1, 1, (m, n0))
                modules.append(M["sumlin"]([r0, r1], new_sig(tag, A @ (v0 + v1), A @ (J0 + J1)), A))
                labels.append("shared_adjoint_object")
            elif kind == "einsum_mul":
                modules.append(pym.EinSum([r0, r1], new_sig(tag, v0 * v1, v1[:, None] * J0 + v0[:, None] * J1),
                                          expression="i,i->i"))
                labels.append("lib:einsum")
            elif kind == "math_a":
                modules.append(pym.MathGeneral([r0, r1], new_sig(tag, v0 * v1 + np.sin(v0),
                                                                 (v1 + np.cos(v0))[:, None] * J0 + v0[:, None] * J1),
                                               expression="inp0*inp1 + sin(inp0)"))
                labels.append("lib:mathgeneral")
            elif kind == "math_b":
                modules.append(pym.MathGeneral([r0, r1], new_sig(tag, np.exp(0.3 * v0) - v1 ** 2,
                                                                 (0.3 * np.exp(0.3 * v0))[:, None] * J0 - (2 * v1)[:, None] * J1),
                                               expression="exp(0.3*inp0) - inp1^2"))
                labels.append("lib:mathgeneral")
            else:
                modules.append(pym.ConcatSignal([r0, r1], new_sig(tag, np.concatenate([v0, v1]), np.vstack([J0, J1]))))
                labels.append("lib:concat")
        elif kind == "fill2":
            # two producers write disjoint parts of one pre-allocated buffer through output slices
            r1, v1, J1, g1 = take(nd["in"][1], nd["slc"][1])
            m1, m2 = m, max(1, (m + 1) // 2)
            buf = pym.Signal(tag + "buf", np.zeros(m1 + m2))
            A, B = rng.uniform(-1, 1, (m1, n0)), rng.uniform(-1, 1, (m2, v1.size))
            order = [0, 1] if (inode % 2 == 0) else [1, 0]     # the second part may be written first
            parts = [(buf[0:m1], A, r0), (buf[m1:m1 + m2], B, r1)]
            for p in order:
                modules.append(M["lin"](parts[p][2], parts[p][0], parts[p][1]))
            sigs.append(Sig(buf, np.concatenate([A @ v0, B @ v1]), np.vstack([A @ J0, B @ J1])))
            labels.append("output_slice")
            labels.append("slice")
        elif kind == "filterconv":
            shapes = {4: (2, 2), 6: (3, 2), 2: (2, 1), 3: (3, 1), 1: (1, 1)}
            if n0 in shapes:
                nx, ny = shapes[n0]
                dom = pym.DomainDefinition(nx, ny)
                ref_mod = pym.FilterConv(pym.Signal("t", np.zeros(n0)), pym.Signal("o"), dom, radius=1.5,
                                         xmin_bc="edge", ymax_bc=0.0)
                H = np.zeros((n0, n0))
                for c in range(n0):
                    e = np.zeros(n0)
                    e[c] = 1.0
                    ref_mod.sig_in[0].state = e
                    ref_mod.response()
                    H[:, c] = ref_mod.sig_out[0].state
                # affine part (constant padding) does not matter for the Jacobian but does for the value
                ref_mod.sig_in[0].state = np.zeros(n0)
                ref_mod.response()
                c0 = ref_mod.sig_out[0].state.copy()
                H = H - c0[:, None]
                modules.append(pym.FilterConv(r0, new_sig(tag, H @ v0 + c0, H @ J0), dom, radius=1.5, xmin_bc="edge",
                                              ymax_bc=0.0))
                labels.append("lib:filterconv")
            else:
                y = np.tanh(v0)
                modules.append(M["tanh"](r0, new_sig(tag, y, (1 - y ** 2)[:, None] * J0)))
        else:
            raise ValueError(kind)

    if any(s.consumers >= 2 for s in sigs):
        labels.append("fanout")

    # ---------------- nesting plan: wrap contiguous runs of modules into Network objects
    items = list(modules)
    for nst in case["nest"]:
        if len(items) < 2:
            break
        a = nst["start"] % len(items)
        ln = max(1, min(nst["len"], len(items) - a))
        grp = items[a:a + ln]
        mode = nst["mode"]
        tim = nst.get("timing", False)
        if mode == "ctor":
            net = pym.Network(*grp, print_timing=tim)
        elif mode == "ctor_list":
            net = pym.Network(grp, print_timing=tim)
        elif mode == "append":
            net = pym.Network(print_timing=tim)
            for g in grp:
                net.append(g)
        else:
            # dict specification for user modules of kind lin (others are appended as objects)
            spec = []
            for g in grp:
                if type(g).__name__ == "C02Lin":
                    spec.append({"type": "C02Lin", "sig_in": g.sig_in, "sig_out": g.sig_out, "M": g.M})
                else:
                    spec.append(g)
            net = pym.Network(spec, print_timing=tim)
        if tim is not False:
            labels.append("nest_timing")
        items[a:a + ln] = [net]
        labels.append("nested")
        labels.append("nest:" + mode)
    inc = case.get("incremental")
    if inc is not None and len(items) >= 2:
        k = 1 + (inc - 1) % (len(items) - 1)
        top = pym.Network(items[:k], print_timing=case.get("timing", False))
        try:
            top.response()
            lastout = [m for m in items[:k] if not isinstance(m, pym.Network)]
            if lastout and lastout[-1].sig_out and lastout[-1].sig_out[0].state is not None:
                so = lastout[-1].sig_out[0]
                if hasattr(so.state, "tocsc"):      # a matrix-valued signal: seeded with a dyad
                    so.sensitivity = pym.DyadCarrier(np.ones(so.state.shape[0]), np.ones(so.state.shape[1]))
                else:
                    so.sensitivity = np.ones_like(so.state)
            top.sensitivity()
            top.reset()
            top.append(*items[k:])
        except Exception as e:
            bad(f"raises:incremental_build:{type(e).__name__}", repr(e)[:500])
            return labels, V
        labels.append("incremental_build")
    else:
        top = pym.Network(items, print_timing=case.get("timing", False))
    if case.get("timing", False) is not False:
        labels.append("top_timing")

    # ---------------- run the real network
    try:
        top.response()
    except Exception as e:
        bad(f"raises:response:{type(e).__name__}", repr(e)[:500])
        return labels, V
    for i, s in enumerate(sigs):
        got = s.real.state
        if got is not None and s.twoD:
            got = np.ravel(got)
        if got is None or np.shape(got) != s.val.shape or not np.allclose(got, s.val, rtol=1e-11, atol=1e-12):
            bad("state", f"signal {i} ({s.real.tag}) state {got} expected {s.val}")
            return labels, V

    seeded = {}
    for r in case["seeds"]:
        i = r % len(sigs)
        if i not in seeded:
            seeded[i] = rng.uniform(-1, 1, sigs[i].val.size) * case.get("seed_scale", 1.0)
    # seeding sources themselves is possible as well (their own sensitivity is then part of the expected total)
    top.reset()
    for i, w in seeded.items():
        sigs[i].real.add_sensitivity(w.reshape(np.shape(sigs[i].real.state)).copy())   # additive: seeded slices may overlap
    try:
        top.sensitivity()
    except Exception as e:
        bad(f"raises:sensitivity:{type(e).__name__}", repr(e)[:500])
        return labels, V
    expected = np.zeros(ntot)
    for i, w in seeded.items():
        expected += sigs[i].jac.T @ w
    # number of distinct paths heuristic: a seeded signal whose Jacobian gets contributions through a shared signal
    if any(s.consumers >= 2 for s in sigs) or len(seeded) >= 2:
        labels.append("multipath")
    if len(seeded) >= 2:
        labels.append("multi_seed")
    if len(seeded) < len(sigs):
        labels.append("unseeded_branches")
    scale = max(float(case.get("seed_scale", 1.0)), float(np.max(np.abs(expected))))
    if case.get("seed_scale", 1.0) != 1.0:
        labels.append("scaled_seeds")
    for (s, o, n, shp) in sources:
        g = s.sensitivity
        exp = expected[o:o + n].reshape(shp)
        if g is None:
            got = np.zeros(shp)
        else:
            got = np.asarray(g, dtype=float)
        if got.shape != tuple(shp) or np.max(np.abs(got - exp)) > 1e-10 * scale:
            bad("total_derivative", f"source {s.tag}: sensitivity {got} expected {exp}")
            break

    # ---------------- cross-check of the oracle itself on a sample: Richardson differences of the real network
    if case["payload_seed"] % 8 == 0 and not V:
        labels.append("fd_crosscheck")
        vdir = rng.uniform(-1, 1, ntot)
        base = [s.state.copy() for (s, o, n, shp) in sources]

        def phi(t):
            for (s, o, n, shp), b0 in zip(sources, base):
                s.state = b0 + t * vdir[o:o + n].reshape(shp)
            for sg in sigs:     # re-zero buffers is not needed: they are fully overwritten
                pass
            top.response()
            return sum(float(np.dot(w, np.ravel(sigs[i].real.state))) for i, w in seeded.items())
        d, err = richardson(phi, 1e-2)
        for (s, o, n, shp), b0 in zip(sources, base):
            s.state = b0
        a = float(expected @ vdir)
        if abs(a - d) > 1e-6 * max(abs(a), abs(d), case.get("seed_scale", 1.0)) + 50 * err and err < 1e-5 * case.get("seed_scale", 1.0):
            raise AssertionError(f"C02 oracle self-check failed: forward-mode {a} vs differences {d} (err {err}) "
                                 f"case={case}")
    return labels, V
