"""C18 — Signals and slices alias state, isolate accumulations and reset cleanly.

A case is a *history*: base signals, then a list of op dicts (create slice, assign state / sensitivity, add_sensitivity
with fresh values, re-used objects or another signal's sensitivity, mutate a previously passed object, reset variants).
The reference model keeps, per base signal, a private numpy copy of the state and the sensitivity; a slice is modelled
by its *index map* (the flat positions of the base it addresses, computed once from `arange(size).reshape(shape)[idx]`),
so "writes exactly those entries and nothing else" is decided by comparing the complete base arrays after every op.
All arithmetic in the history is a single floating-point addition per entry, so comparisons are exact (tolerance 0).
"""
import numpy as np
from hypothesis import strategies as st
from pbt.harness import viol

PROPERTY_ID = "C18"
RULE = ("case = 1-3 base signals (python float/complex scalars; 0-d..3-d real/complex arrays, axis lengths 1..4; with or "
        "without an initial sensitivity buffer -> keep_alloc), 1-3 initial slices and a history of <= 24 op dicts over the "
        "handles (bases and slices; indices modulo the number of handles): slice creation (basic incl. ints/steps/"
        "negative/Ellipsis, tuples of slices, integer arrays without repeats on one axis or point-wise, nested basic "
        "slices), state assignment (rebind, through a slice, slice +=, direct numpy write), sensitivity assignment "
        "(array/scalar/None), add_sensitivity (fresh array, python scalar, re-used object, another signal's sensitivity "
        "object, None), in-place mutation of a previously passed object, reset(), reset(True/False) on bases and slices. "
        "After every op all states/sensitivities of all handles are read back and compared with the model. Non-trivial = "
        ">= 1 write or accumulation through a slice and >= 1 reset. Distinct = sha1 of the canonical case JSON.")
# coverage-guided engine (pbt/fuzz.py): executions per process in each tier (16 processes)
FUZZ = {"quick": 0, "thorough": 6000, "instrument": "pymoto.core_objects"}
ASSUMPTIONS = [
    "values passed to a signal have the dtype class (real/complex) of that signal's state and the shape of the (sliced) "
    "state, or are python scalars broadcast by numpy; real values into complex signals are not mixed in",
    "not generated (inadmissible by the property text): integer index arrays with repeats, writes through nested fancy "
    "slices (nesting is basic-in-basic only), slices of scalar states (python numbers and 0-d arrays: `state*0` of a "
    "0-d array is an immutable numpy scalar, so `s[...]`/`s[()]` cannot hold a sensitivity), integer/bool/object states",
    "base states are re-assigned only with values of the same shape and dtype class, so existing slices stay valid",
    "for python-scalar signals 'zeroed in place' can only mean 'value 0' (python numbers are immutable); buffer identity "
    "after reset(keep_alloc) is checked for array sensitivities only",
    "op lists instead of RuleBasedStateMachine so that cases are JSON and replay without Hypothesis; the thorough tier "
    "additionally drives the same strategy/check through atheris (libFuzzer) via pbt/fuzz.py",
]
_FAIL = object()


def budget(tier):
    return {"examples": 9000 if tier == "quick" else 100000, "shards": 16, "shrink": 200 if tier == "quick" else 600}


# ---------------------------------------------------------------------------------------------------------------------
def strategy(tier):
    big = tier != "quick"
    seed16 = st.integers(0, 2 ** 16 - 1)
    ref = st.integers(0, 23)
    sl_b = st.one_of(st.none(), st.integers(-5, 5), st.integers(0, 9))
    item = st.one_of(
        st.fixed_dictionaries({"t": st.just("int"), "i": st.integers(-4, 3)}),
        st.fixed_dictionaries({"t": st.just("slice"), "a": sl_b, "b": sl_b,
                               "c": st.sampled_from([None, None, None, 1, 2, 3, -1, -2])}),
        st.just({"t": "slice", "a": None, "b": None, "c": None}))
    basic = st.fixed_dictionaries({"t": st.just("basic"), "ax": st.lists(item, min_size=0, max_size=3),
                                   "ell": st.sampled_from([0, 0, 0, 1, 2])})
    fancy = st.fixed_dictionaries({"t": st.just("fancy"), "v": st.sampled_from(["a0", "a0", "a0s", "sa", "pt", "m0"]),
                                   # up to 10 entries: long index arrays (numpy abbreviates their text form) and masks
                                   "i": st.one_of(st.lists(st.integers(-4, 3), min_size=0, max_size=5),
                                                  st.lists(st.integers(-12, 11), min_size=5, max_size=10)),
                                   "j": st.one_of(st.lists(st.integers(-4, 3), min_size=1, max_size=5),
                                                  st.lists(st.integers(-12, 11), min_size=5, max_size=10)),
                                   "sl": st.fixed_dictionaries({"a": sl_b, "b": sl_b,
                                                                "c": st.sampled_from([None, None, 1, 2, -1])}),
                                   "two": st.booleans()})
    spec = st.one_of(basic, basic, fancy)
    base = st.fixed_dictionaries({
        "kind": st.sampled_from(["arr", "arr", "arr", "arr", "arr", "arr", "arr", "arr", "pyfloat", "pycomplex",
                                 "npfloat", "npcomplex"]),
        "shape": st.one_of(st.lists(st.integers(1, 4), min_size=1, max_size=3),
                           st.lists(st.integers(1, 4), min_size=0, max_size=3),
                           # long vectors: room for nested slices whose inner part runs past the end of the outer block
                           st.lists(st.integers(6, 12), min_size=1, max_size=1)), "cplx": st.booleans(),
        "init_sens": st.booleans(), "like0": st.booleans()})

    def op(name, **kw):
        return st.fixed_dictionaries(dict({"op": st.just(name), "s": seed16}, **kw))

    o_slice = op("slice", src=ref, spec=spec)
    ps = st.booleans()   # prefer a slice as the target when one exists
    o_state = op("set_state", h=ref, ps=ps, mode=st.sampled_from(["array", "array", "scalar", "iadd", "inplace", "own_view"]))
    o_sens = op("set_sens", h=ref, ps=ps, mode=st.sampled_from(["array", "array", "scalar", "none"]))
    o_add = op("add", h=ref, ps=ps, src=st.sampled_from(["fresh", "fresh", "donor", "donor", "scalar"]), d=ref)
    o_from = op("add_from", h=ref, ps=ps, g=ref)
    o_none = op("add_none", h=ref)
    o_mut = op("mutate", d=ref)
    o_reset = op("reset", h=ref, ps=ps, ka=st.sampled_from([None, None, True, False]))
    anyop = st.one_of(o_slice, o_slice, o_state, o_state, o_sens, o_add, o_add, o_add, o_add, o_from, o_none, o_mut,
                      o_reset, o_reset, o_reset)
    nmax = 32 if big else 24
    return st.fixed_dictionaries({
        "bases": st.lists(base, min_size=1, max_size=3),
        "slices": st.lists(o_slice, min_size=1, max_size=3),
        "ops": st.one_of(st.lists(anyop, min_size=1, max_size=nmax), st.lists(anyop, min_size=8, max_size=nmax),
                         st.lists(anyop, min_size=14, max_size=nmax)),
        "payload_seed": st.integers(0, 2 ** 31 - 1)})


def nontrivial(labels):
    return "nontrivial" in labels


# ---------------------------------------------------------------------------------------------------------------------
def _excname(e):
    for c in type(e).__mro__:
        if not c.__name__.startswith("_"):
            return c.__name__
    return type(e).__name__


def _norm(i, n):
    return i % n if i >= 0 else -((-i - 1) % n) - 1


def _values(rng, shape, cplx):
    x = rng.integers(-16, 17, size=shape) / 8.0
    if cplx:
        x = x + 1j * (rng.integers(-16, 17, size=shape) / 8.0)
    return np.array(x)


def _pyscalar(rng, cplx, npy=False):
    re, im = float(rng.integers(-16, 17)) / 8.0, float(rng.integers(-16, 17)) / 8.0
    v = complex(re, im) if cplx else re
    if npy:     # numpy scalar objects (what v @ w, np.sum(...) return): immutable like python scalars
        v = np.complex128(v) if cplx else np.float64(v)
    return v


class _Base:
    pass


class _Run:
    def __init__(self, case):
        import pymoto
        self.pym = pymoto
        self.case = case
        self.V = []
        self.labels = set()
        self.bases = []
        self.handles = []      # dicts: sig, base, pos (None for a base), cls, depth
        self.donors = []       # dicts: obj (passed to add_sensitivity), val (expected content), cplx, shape
        self.stop = False
        self.step = -1
        self.cur = None
        self.opname = "init"
        self.n_slice_write = 0
        self.n_reset = 0

    def rng(self, op):
        return np.random.default_rng([int(self.case["payload_seed"]), int(op["s"])])

    def bad(self, bucket, detail):
        cur = "" if self.cur is None else str({k: v for k, v in self.cur.items() if k != "s"})[:300]
        self.V.append(viol(f"C18:{bucket}", f"step {self.step} {cur}: {detail}"))

    def pm(self, what, fn):
        try:
            return fn()
        except Exception as e:
            self.bad(f"raises:{self.opname}:{_excname(e)}", f"{what}: {type(e).__name__}: {str(e)[:300]}")
            self.stop = True
            return _FAIL

    # ---- construction
    def make_base(self, i, spec):
        rng = np.random.default_rng([int(self.case["payload_seed"]), 70000 + i])
        b = _Base()
        if spec.get("like0") and i > 0:     # same kind/shape/dtype class as the first base (objects can be shared)
            spec = dict(self.case["bases"][0], init_sens=spec["init_sens"])
        b.kind = spec["kind"]
        b.cplx = bool(spec["cplx"]) if b.kind == "arr" else b.kind in ("pycomplex", "npcomplex")
        b.npy = b.kind in ("npfloat", "npcomplex")
        b.keep = bool(spec["init_sens"])
        if b.kind == "arr":
            b.shape = tuple(spec["shape"])
            state = _values(rng, b.shape, b.cplx)
            sens = _values(rng, b.shape, b.cplx) if b.keep else None
            self.labels.add(f"base:arr{len(b.shape)}d")
        else:
            b.shape = ()
            state = _pyscalar(rng, b.cplx, b.npy)
            sens = _pyscalar(rng, b.cplx, b.npy) if b.keep else None
            self.labels.add("base:npscalar" if b.npy else "base:pyscalar")
        self.labels.add("complex" if b.cplx else "real")
        if b.keep:
            self.labels.add("keep_alloc")
        b.mstate = np.array(state) if b.kind == "arr" else state
        b.msens = None if sens is None else (np.array(sens) if b.kind == "arr" else sens)
        b.sens_obj = sens
        Signal = self.pym.Signal
        if b.keep:
            sig = self.pm("Signal(tag, state, sensitivity)", lambda: Signal(f"b{i}", state, sens))
        elif i % 2:
            sig = self.pm("Signal(tag, state=)", lambda: Signal(f"b{i}", state=state))
        else:
            def mk():
                s = Signal(f"b{i}")
                s.state = state
                return s
            sig = self.pm("Signal(tag); .state =", mk)
        if sig is _FAIL:
            return
        b.sig = sig
        self.bases.append(b)
        self.handles.append({"sig": sig, "base": b, "pos": None, "cls": "base", "depth": 0})

    def target(self, op):
        hs = self.handles
        if op.get("ps"):
            sl = [h for h in hs if h["pos"] is not None]
            if sl:
                hs = sl
        return hs[int(op["h"]) % len(hs)]

    def hshape(self, h):
        return h["base"].shape if h["pos"] is None else h["pos"].shape

    def build_index(self, spec, shp):
        """index object valid (numpy semantics, no repeats) for an array of shape shp, or None if not applicable"""
        nd = len(shp)
        if spec["t"] == "basic":
            items = spec["ax"][:nd]
            ell = spec["ell"]
            axes = list(range(nd - len(items), nd)) if ell == 1 else list(range(len(items)))
            out = []
            for ax, it in zip(axes, items):
                n = shp[ax]
                if it["t"] == "int" and n > 0:
                    out.append(_norm(int(it["i"]), n))
                elif it["t"] == "int":
                    out.append(slice(None))
                else:
                    out.append(slice(it["a"], it["b"], it["c"]))
            if ell == 1:
                out = [Ellipsis] + out
            elif ell == 2:
                out = out + [Ellipsis]
            kinds = {"int" if isinstance(o, int) else "slice" for o in out if o is not Ellipsis}
            self.labels.add("slice:tuple" if len(out) > 1 else "slice:single")
            if ell:
                self.labels.add("slice:ellipsis")
            if "int" in kinds:
                self.labels.add("slice:int")
            if len(out) == 1 and ell == 0:
                return out[0]
            return tuple(out)
        # integer arrays without repeats
        if nd == 0 or min(shp) == 0:
            return None
        v = spec["v"] if nd >= 2 or spec["v"] == "m0" else "a0"

        def uniq(lst, n):
            seen, out = set(), []
            for i in lst:
                k = int(i) % n
                if k not in seen:
                    seen.add(k)
                    out.append(_norm(int(i), n))
            return out

        def two(a):
            return a.reshape(2, -1) if spec["two"] and a.size >= 2 and a.size % 2 == 0 else a
        sl = slice(spec["sl"]["a"], spec["sl"]["b"], spec["sl"]["c"])
        self.labels.add(f"slice:fancy_{v}")
        if v == "a0":
            a = np.array(uniq(spec["i"], shp[0]), dtype=np.int64)
            if a.size > 4:
                self.labels.add("slice:fancy_long")
            return two(a)
        if v == "m0":      # boolean mask over the first axis
            m = np.zeros(shp[0], dtype=bool)
            m[[int(i) % shp[0] for i in spec["i"]]] = True
            if m.size > 4:
                self.labels.add("slice:fancy_long")
            return m
        if v == "a0s":
            return (two(np.array(uniq(spec["i"], shp[0]), dtype=np.int64)), sl)
        if v == "sa":
            return (sl, two(np.array(uniq(spec["j"], shp[1]), dtype=np.int64)))
        seen, ii, jj = set(), [], []
        for k, i in enumerate(spec["i"]):
            j = spec["j"][k % len(spec["j"])]
            key = (int(i) % shp[0], int(j) % shp[1])
            if key not in seen:
                seen.add(key)
                ii.append(_norm(int(i), shp[0]))
                jj.append(_norm(int(j), shp[1]))
        return (two(np.array(ii, dtype=np.int64)), two(np.array(jj, dtype=np.int64)))

    def op_slice(self, op):
        spec = op["spec"]

        def eligible(x):
            bb = x["base"]
            if bb.kind != "arr" or len(bb.shape) == 0 or x["depth"] >= 3:
                return False     # scalars (python numbers and 0-d arrays) have nothing to slice
            if x["pos"] is not None:
                # nesting: only basic-in-basic, and the source must still be an array
                return x["cls"] != "fancy" and spec["t"] == "basic" and x["pos"].ndim > 0
            return True
        el = [x for x in self.handles if eligible(x)]
        if not el:
            return False
        h = el[int(op["src"]) % len(el)]
        b = h["base"]
        idx = self.build_index(spec, self.hshape(h))
        if idx is None:
            return False
        src_map = np.arange(int(np.prod(b.shape, dtype=np.int64))).reshape(b.shape) if h["pos"] is None else h["pos"]
        pos = np.asarray(src_map[idx])
        if pos.size != np.unique(pos).size:
            raise AssertionError("generator produced an index with repeats")
        self.opname = "slice"
        sig = self.pm("signal[index]", lambda: h["sig"][idx])
        if sig is _FAIL:
            return True
        if not isinstance(sig, self.pym.Signal):
            self.bad("type:slice", f"signal[index] returned {type(sig).__name__}")
            self.stop = True
            return True
        cls = "nested" if h["pos"] is not None else ("basic" if spec["t"] == "basic" else "fancy")
        self.labels.add(f"slice:{cls}")
        if pos.size == 0:
            self.labels.add("slice:empty")
        self.handles.append({"sig": sig, "base": b, "pos": pos, "cls": cls, "depth": h["depth"] + 1})
        return True

    # ---- model helpers
    @staticmethod
    def m_write(arr, pos, val):
        arr.reshape(-1)[pos.ravel()] = np.broadcast_to(val, pos.shape).ravel()

    @staticmethod
    def m_add(arr, pos, val):
        flat = arr.reshape(-1)
        flat[pos.ravel()] = flat[pos.ravel()] + np.broadcast_to(val, pos.shape).ravel()

    def tname(self, name, h):
        return f"{name}@{h['cls']}"

    # ---- operations
    def op_set_state(self, op):
        h = self.target(op)
        b, sig, rng, mode = h["base"], h["sig"], self.rng(op), op["mode"]
        self.opname = self.tname("set_state", h)
        if b.kind != "arr":
            v = _pyscalar(rng, b.cplx, b.npy)
            if self.pm("signal.state = scalar", lambda: setattr(sig, "state", v)) is _FAIL:
                return True
            b.mstate = v
            return True
        shp = self.hshape(h)
        if h["pos"] is None:
            if mode in ("array", "scalar"):
                v = _values(rng, shp, b.cplx)
                if self.pm("base.state = array", lambda: setattr(sig, "state", v)) is _FAIL:
                    return True
                b.mstate = v.copy()
                self.labels.add("state:rebind")
            else:
                v = _values(rng, shp, b.cplx)
                vv = v.copy()

                def run():
                    sig.state[...] = vv
                if self.pm("base.state[...] = array", run) is _FAIL:
                    return True
                b.mstate = v.copy()
                self.labels.add("state:direct_write")
            return True
        pos = h["pos"]
        v = _pyscalar(rng, b.cplx) if mode == "scalar" else _values(rng, shp, b.cplx)
        vv = v.copy() if isinstance(v, np.ndarray) else v
        if mode == "own_view":
            # the assigned value is itself a view of the signal's current data (the slice reversed, or another slice of
            # the same base with the same shape): numpy assigns as if the right-hand side were copied first
            cur = self.pm("slice.state", lambda: sig.state)
            if cur is _FAIL:
                return True
            peers = [g for g in self.handles if g is not h and g["base"] is b and g["pos"] is not None
                     and self.hshape(g) == shp]
            src = None
            if peers and rng.integers(0, 2) == 0:
                src = self.pm("peer slice.state", lambda: peers[int(rng.integers(0, len(peers)))]["sig"].state)
                if src is _FAIL:
                    return True
                self.labels.add("state:assign_peer_view")
            elif isinstance(cur, np.ndarray) and cur.ndim >= 1 and cur.shape[0] >= 2:
                src = cur[::-1]
                self.labels.add("state:assign_reversed_view")
            if isinstance(src, np.ndarray) and src.shape == tuple(shp):
                v = np.array(src, copy=True)
                vv = src
        if mode == "iadd":
            def run():
                sig.state += vv
            if self.pm("slice.state += value", run) is _FAIL:
                return True
            self.m_add(b.mstate, pos, v)
        else:
            if self.pm("slice.state = value", lambda: setattr(sig, "state", vv)) is _FAIL:
                return True
            self.m_write(b.mstate, pos, v)
        if isinstance(vv, np.ndarray) and not np.array_equal(vv, v) and mode != "own_view":
            self.bad(f"{self.opname}:value_changed", "the value assigned through the slice was modified")
        self.labels.add("state:slice_write")
        self.n_slice_write += 1
        return True

    def op_set_sens(self, op):
        h = self.target(op)
        b, sig, rng, mode = h["base"], h["sig"], self.rng(op), op["mode"]
        self.opname = self.tname("set_sens", h)
        shp = self.hshape(h)
        if h["pos"] is None:
            if mode == "none":
                v = None
            elif b.kind != "arr":
                v = _pyscalar(rng, b.cplx, b.npy)
            else:
                v = _values(rng, shp, b.cplx)
            if self.pm("base.sensitivity = value", lambda: setattr(sig, "sensitivity", v)) is _FAIL:
                return True
            b.msens = None if v is None else (v.copy() if isinstance(v, np.ndarray) else v)
            return True
        pos = h["pos"]
        v = None if mode == "none" else _pyscalar(rng, b.cplx) if mode == "scalar" else _values(rng, shp, b.cplx)
        if isinstance(v, np.ndarray) and int(op["s"]) % 4 == 0:
            # a contribution of a narrower dtype than the state (real onto complex, single onto double precision): the
            # zero sensitivity a slice creates takes the state's dtype, so later wider contributions lose nothing
            v = v.real.copy() if b.cplx else v.astype(np.float32)
            self.labels.add("narrower_dtype_through_slice")
        vv = v.copy() if isinstance(v, np.ndarray) else v
        if self.pm("slice.sensitivity = value", lambda: setattr(sig, "sensitivity", vv)) is _FAIL:
            return True
        if b.msens is None:
            if v is None:
                return True
            b.msens = np.zeros(b.shape, dtype=b.mstate.dtype)
            self.labels.add("sens:created_by_slice")
        self.m_write(b.msens, pos, 0 if v is None else v)
        if isinstance(vv, np.ndarray) and not np.array_equal(vv, v):
            self.bad(f"{self.opname}:value_changed", "the value assigned through the slice was modified")
        self.labels.add("sens:slice_write")
        self.n_slice_write += 1
        return True

    def m_accumulate(self, h, val):
        """model of add_sensitivity(val) on handle h; val is a private copy"""
        b = h["base"]
        if h["pos"] is None:
            if b.msens is None:
                b.msens = val.copy() if isinstance(val, np.ndarray) else val
            else:
                b.msens = b.msens + val
            return
        if b.msens is None:
            b.msens = np.zeros(b.shape, dtype=b.mstate.dtype)
            self.labels.add("sens:created_by_slice")
        self.m_add(b.msens, h["pos"], val)
        self.labels.add("sens:slice_accum")
        self.n_slice_write += 1

    def op_add(self, op):
        h = self.target(op)
        src = op["src"]
        donor = None
        if src == "donor" and self.donors:
            # pick the object first, then a handle it fits (same object twice / same object to two signals)
            donor = self.donors[int(op["d"]) % len(self.donors)]
            fits = [x for x in self.handles if x["base"].kind == "arr" and x["base"].cplx == donor["cplx"] and
                    tuple(self.hshape(x)) == donor["shape"]]
            h = fits[int(op["h"]) % len(fits)]
            self.labels.add("add:donor_reused")
            if all(h is not u for u in donor["users"]):
                self.labels.add("add:same_object_other_signal")
        b, sig, rng = h["base"], h["sig"], self.rng(op)
        self.opname = self.tname("add", h)
        shp = self.hshape(h)
        if b.kind != "arr":
            v = _pyscalar(rng, b.cplx, b.npy)
            donor = None
            r = self.pm("scalar_signal.add_sensitivity(python scalar)", lambda: sig.add_sensitivity(v))
            if r is _FAIL:
                return True
            self.m_accumulate(h, v)
            self.labels.add("add:pyscalar")
            return True
        if src == "scalar" and (h["pos"] is not None or b.msens is not None):
            v = _pyscalar(rng, b.cplx)
            r = self.pm("add_sensitivity(python scalar)", lambda: sig.add_sensitivity(v))
            if r is _FAIL:
                return True
            self.m_accumulate(h, v)
            self.labels.add("add:broadcast_scalar")
            return True
        if donor is None:
            obj = _values(rng, shp, b.cplx)
            donor = {"obj": obj, "val": obj.copy(), "shape": tuple(shp), "cplx": b.cplx, "uses": 0, "users": []}
            if h["pos"] is not None and int(op["s"]) % 4 == 0:
                # narrower dtype than the state, added through a slice (not offered for reuse on other signals)
                obj = obj.real.copy() if b.cplx else obj.astype(np.float32)
                donor = dict(donor, obj=obj, val=obj.copy())
                self.labels.add("narrower_dtype_through_slice")
            else:
                self.donors.append(donor)
            self.labels.add("add:fresh")
        donor["uses"] += 1
        donor["users"].append(h)
        r = self.pm("add_sensitivity(array)", lambda: sig.add_sensitivity(donor["obj"]))
        if r is _FAIL:
            return True
        if r is not sig:
            self.bad(f"{self.opname}:return", "add_sensitivity did not return the signal")
        self.m_accumulate(h, donor["val"].copy())
        return True

    def op_add_from(self, op):
        h = self.target(op)
        g = self.handles[int(op["g"]) % len(self.handles)]
        fits = [x for x in self.handles if x["base"].cplx == h["base"].cplx and
                tuple(self.hshape(x)) == tuple(self.hshape(h)) and (x["base"].kind == "arr") == (h["base"].kind == "arr")]
        g = fits[int(op["g"]) % len(fits)]
        b, sig = h["base"], h["sig"]
        self.opname = self.tname("add_from", h)
        if g["base"].cplx != b.cplx or tuple(self.hshape(g)) != tuple(self.hshape(h)) or \
                (g["base"].kind == "arr") != (b.kind == "arr"):
            return False
        ds = self.pm("other.sensitivity", lambda: g["sig"].sensitivity)
        if ds is _FAIL:
            return True
        gb = g["base"]
        if gb.msens is None:
            want = None
        elif g["pos"] is None:
            want = gb.msens.copy() if isinstance(gb.msens, np.ndarray) else gb.msens
        else:
            want = np.array(gb.msens.reshape(-1)[g["pos"]])
        if (ds is None) != (want is None):
            return True     # reported by verify() of the previous step already; nothing to add here
        r = self.pm("add_sensitivity(other.sensitivity)", lambda: sig.add_sensitivity(ds))
        if r is _FAIL:
            return True
        if want is not None:
            self.m_accumulate(h, want)
            self.labels.add("add:from_signal")
            if g is h or (gb is b):
                self.labels.add("add:from_same_base")
        return True

    def op_add_none(self, op):
        h = self.handles[int(op["h"]) % len(self.handles)]
        self.opname = self.tname("add_none", h)
        self.pm("add_sensitivity(None)", lambda: h["sig"].add_sensitivity(None))
        return True

    def op_mutate(self, op):
        c = [d for d in self.donors if d["uses"] > 0]
        if not c:
            return False
        d = c[int(op["d"]) % len(c)]
        rng = self.rng(op)
        self.opname = "mutate_passed_value"
        new = _values(rng, d["shape"], d["cplx"]) + 100.0
        d["obj"][...] = new
        d["val"] = new.copy()
        self.labels.add("donor:mutated")
        return True

    def op_reset(self, op):
        h = self.target(op)
        b, sig, ka = h["base"], h["sig"], op["ka"]
        self.opname = self.tname("reset", h)
        if h["pos"] is not None:
            r = self.pm("slice.reset", (lambda: sig.reset()) if ka is None else (lambda: sig.reset(keep_alloc=ka)))
            if r is _FAIL:
                return True
            if b.msens is not None:
                self.m_write(b.msens, h["pos"], 0)
                self.labels.add("reset:slice")
            self.n_reset += 1
            return True
        before = self.pm("base.sensitivity", lambda: sig.sensitivity)
        if before is _FAIL:
            return True
        r = self.pm("base.reset", (lambda: sig.reset()) if ka is None else (lambda: sig.reset(keep_alloc=ka)))
        if r is _FAIL:
            return True
        if r is not sig:
            self.bad(f"{self.opname}:return", "reset did not return the signal")
        self.n_reset += 1
        if b.msens is None:
            self.labels.add("reset:nothing_to_reset")
            return True
        keep = b.keep if ka is None else bool(ka)
        if keep:
            self.labels.add("reset:keep_alloc")
            if isinstance(b.msens, np.ndarray):
                b.msens = np.zeros(b.msens.shape, dtype=b.msens.dtype)
                after = self.pm("base.sensitivity", lambda: sig.sensitivity)
                # (only an ndarray is a buffer that can be kept; a 0-d sensitivity may live as an immutable numpy scalar)
                if after is not _FAIL and after is not before and isinstance(before, np.ndarray):
                    self.bad(f"{self.opname}:buffer",
                             "allocation kept, but the sensitivity is not the same buffer as before the reset")
            else:
                b.msens = b.msens * 0
        else:
            self.labels.add("reset:to_none")
            b.msens = None
        return True

    # ---- read-back of everything
    def same(self, got, want, what, quantity, hcls):
        bucket = f"{self.opname}:{quantity}_{hcls}"
        if want is None:
            if got is not None:
                self.bad(bucket, f"{what}: expected None, got {type(got).__name__} {np.shape(got)}")
                return False
            return True
        if got is None:
            self.bad(bucket, f"{what}: is None, model holds {np.shape(want)} values")
            return False
        if isinstance(got, (self.pym.Signal,)) or np.asarray(got).dtype == object:
            self.bad(bucket, f"{what}: holds a {type(got).__name__}")
            return False
        g, w = np.asarray(got), np.asarray(want)
        if g.shape != w.shape:
            self.bad(bucket, f"{what}: shape {g.shape}, model {w.shape}")
            return False
        if np.iscomplexobj(w) != np.iscomplexobj(g) and isinstance(want, np.ndarray):
            self.bad(bucket, f"{what}: dtype {g.dtype}, model {w.dtype}")
            return False
        if not np.array_equal(g, w):
            k = int(np.sum(g != w))
            self.bad(bucket, f"{what}: {k} of {w.size} entries differ from the model "
                             f"(max |diff| {np.abs(g - w).max():.4g})")
            return False
        return True

    def verify(self):
        ok = True
        for i, h in enumerate(self.handles):
            b, sig = h["base"], h["sig"]
            st_ = self.pm(f"handle {i} .state", lambda: sig.state)
            se_ = self.pm(f"handle {i} .sensitivity", lambda: sig.sensitivity)
            if st_ is _FAIL or se_ is _FAIL:
                return
            if h["pos"] is None:
                ok = ok and self.same(st_, b.mstate, f"state of base b{self.bases.index(b)}", "state", "base")
                ok = ok and self.same(se_, b.msens, f"sensitivity of base b{self.bases.index(b)}", "sens", "base")
                if b.kind == "arr" and isinstance(st_, np.ndarray) is False:
                    self.bad(f"{self.opname}:state_base", "array state is no longer an ndarray")
                    ok = False
            else:
                ws = np.asarray(b.mstate).reshape(-1)[h["pos"]]
                wq = None if b.msens is None else np.asarray(b.msens).reshape(-1)[h["pos"]]
                ok = ok and self.same(st_, ws, f"state read through {h['cls']} slice #{i}", "state", "slice")
                ok = ok and self.same(se_, wq, f"sensitivity read through {h['cls']} slice #{i}", "sens", "slice")
            if not ok:
                break       # one report per step: the first handle (bases first) that disagrees with the model
        # no aliasing of values passed to add_sensitivity, and no sharing between signals
        arrs = []
        for k, b in enumerate(self.bases):
            se_ = b.sig.sensitivity
            if isinstance(se_, np.ndarray):
                arrs.append((k, b, se_))
        for d in self.donors:
            if not np.array_equal(d["obj"], d["val"]):
                self.bad(f"{self.opname}:alias_passed_value_changed",
                         "an array that was passed to add_sensitivity has been modified by a later signal operation")
                d["val"] = d["obj"].copy()
                ok = False
            for k, b, se_ in arrs:
                if se_ is d["obj"] or np.shares_memory(se_, d["obj"]):
                    self.bad(f"{self.opname}:alias_shares_memory",
                             f"sensitivity of base b{k} shares memory with an array passed to add_sensitivity")
                    ok = False
        for x in range(len(arrs)):
            for y in range(x + 1, len(arrs)):
                if np.shares_memory(arrs[x][2], arrs[y][2]):
                    self.bad(f"{self.opname}:alias_between_signals",
                             f"sensitivities of b{arrs[x][0]} and b{arrs[y][0]} share memory")
                    ok = False
            st_ = arrs[x][1].sig.state
            if isinstance(st_, np.ndarray) and np.shares_memory(arrs[x][2], st_):
                self.bad(f"{self.opname}:alias_state_sens", f"state and sensitivity of b{arrs[x][0]} share memory")
                ok = False
        if not ok:
            self.stop = True

    def execute(self):
        for i, spec in enumerate(self.case["bases"]):
            self.step, self.cur = f"base[{i}]", spec
            self.make_base(i, spec)
            if self.stop:
                return
        self.verify()
        table = {"slice": self.op_slice, "set_state": self.op_set_state, "set_sens": self.op_set_sens,
                 "add": self.op_add, "add_from": self.op_add_from, "add_none": self.op_add_none,
                 "mutate": self.op_mutate, "reset": self.op_reset}
        seq = [("slices", i, o) for i, o in enumerate(self.case["slices"])] + \
              [("ops", i, o) for i, o in enumerate(self.case["ops"])]
        for grp, i, op in seq:
            if self.stop:
                return
            self.step, self.cur = (i if grp == "ops" else f"slices[{i}]"), op
            done = table[op["op"]](op)
            if done:
                self.labels.add(f"op:{op['op']}")
                if not self.stop:
                    self.verify()
            else:
                self.labels.add(f"skipped:{op['op']}")


def check_case(case):
    run = _Run(case)
    run.execute()
    labels = set(run.labels)
    if run.n_slice_write >= 1 and run.n_reset >= 1:
        labels.add("nontrivial")
    if any(d_["uses"] >= 2 for d_ in run.donors):
        labels.add("same_object_twice")
    labels.add(f"handles:{min(len(run.handles), 8)}")
    return sorted(labels), run.V
