"""Independent finite-element reference for C08 / C12 (deliberately naive; imports nothing from pymoto).

Numbering (documented in pymoto.DomainDefinition): node (i,j,k) <-> (k*(nely+1)+j)*(nelx+1)+i, element (i,j,k) <->
(k*nely+j)*nelx+i, local node l sits at the corner whose offsets are the bits (1,2,4) of l, dof d of node n is n*ndof+d.
Element matrices: 2-point Gauss integration on the reference cube [-1,1]^dim with own shape functions; the elasticity
matrix is written in index form (lambda/mu tensor), i.e. without any Voigt ordering convention.
"""
import itertools
import numpy as np

GP = 1.0 / np.sqrt(3.0)


def in_thread(fn, *args):
    """Run fn(*args) in a fresh thread and return its result (exceptions are re-raised in the caller).

    Only a cost measure: pyMOTO's Signal/Module constructors call inspect.stack(), whose cost is proportional to the
    Python stack depth (harness -> multiprocessing -> Hypothesis -> check_case is ~60 frames deep, which made object
    construction ~80% of the run time). A fresh thread starts with an empty stack. The verdict of a case does not depend
    on it (same code, same inputs, joined before returning)."""
    import threading
    box = {}

    def run():
        try:
            box["r"] = fn(*args)
        except BaseException as e:   # propagate everything, incl. bugs of the check itself (exit 2)
            box["e"] = e
    th = threading.Thread(target=run)
    th.start()
    th.join()
    if "e" in box:
        raise box["e"]
    return box["r"]


class Grid:
    def __init__(self, nel, unit):
        nx, ny, nz = [int(v) for v in nel]
        self.nx, self.ny, self.nz = nx, ny, nz
        self.dim = 2 if nz == 0 else 3
        self.h = np.array([float(v) for v in unit[:self.dim]])
        self.thickness = 1.0 if self.dim == 3 else float(unit[2])  # out-of-plane thickness of a 2D domain
        nzz = max(nz, 1)
        self.nel = nx * ny * nzz
        self.nnodes = (nx + 1) * (ny + 1) * (nz + 1)
        self.en = 2 ** self.dim
        self.conn = np.zeros((self.nel, self.en), dtype=np.int64)
        self.centroid = np.zeros((self.nel, self.dim))
        self.pos = np.zeros((self.nnodes, self.dim))
        for k in range(nz + 1):
            for j in range(ny + 1):
                for i in range(nx + 1):
                    self.pos[self.node(i, j, k)] = (np.array([i, j, k], dtype=float)[:self.dim]) * self.h
        for k in range(nzz):
            for j in range(ny):
                for i in range(nx):
                    e = (k * ny + j) * nx + i
                    for l in range(self.en):
                        a, b, c = l & 1, (l >> 1) & 1, (l >> 2) & 1
                        self.conn[e, l] = self.node(i + a, j + b, (k + c) if self.dim == 3 else 0)
                    self.centroid[e] = (np.array([i + 0.5, j + 0.5, k + 0.5])[:self.dim]) * self.h
        self.vol_inplane = float(np.prod(self.h))          # area (2D) / volume (3D) of one element
        self.vol = self.vol_inplane * self.thickness       # including the out-of-plane thickness in 2D

    def node(self, i, j, k=0):
        return (k * (self.ny + 1) + j) * (self.nx + 1) + i

    def dofs(self, e, ndof):
        return [int(self.conn[e, l]) * ndof + d for l in range(self.en) for d in range(ndof)]


def signs(dim):
    return [[(1.0 if (l >> a) & 1 else -1.0) for a in range(dim)] for l in range(2 ** dim)]


def shape(dim, xi):
    return np.array([np.prod([(1 + s[a] * xi[a]) / 2 for a in range(dim)]) for s in signs(dim)])


def dshape(dim, xi, h):
    """dN[a, l] = d N_l / d x_a at reference point xi for an element with edge lengths h."""
    sg = signs(dim)
    dN = np.zeros((dim, 2 ** dim))
    for l, s in enumerate(sg):
        for a in range(dim):
            v = s[a] / h[a]
            for b in range(dim):
                if b != a:
                    v *= (1 + s[b] * xi[b]) / 2
            dN[a, l] = v
    return dN


def gauss_points(dim):
    return [np.array(p) for p in itertools.product([-GP, GP], repeat=dim)]


def lame(E, nu, mode):
    """(lambda, mu) of the index-form elasticity tensor C_ijkl = lam d_ij d_kl + mu (d_ik d_jl + d_il d_jk) restricted
    to the modelled directions. mode: '3d' | 'strain' | 'stress'."""
    mu = E / (2 * (1 + nu))
    if mode == "stress":
        lam = E * nu / (1 - nu * nu)
    else:
        lam = E * nu / ((1 + nu) * (1 - 2 * nu))
    return lam, mu


def ke_stiffness(grid, E, nu, mode):
    dim, en = grid.dim, grid.en
    lam, mu = lame(E, nu, "3d" if dim == 3 else mode)
    K = np.zeros((en * dim, en * dim))
    detj = float(np.prod(grid.h / 2))
    for xi in gauss_points(dim):
        dN = dshape(dim, xi, grid.h)
        for l in range(en):
            for a in range(dim):
                for m in range(en):
                    for b in range(dim):
                        v = lam * dN[a, l] * dN[b, m] + mu * dN[b, l] * dN[a, m]
                        if a == b:
                            v += mu * float(dN[:, l] @ dN[:, m])
                        K[l * dim + a, m * dim + b] += detj * grid.thickness * v
    return K


def ke_mass(grid, rho, ndof):
    en = grid.en
    M = np.zeros((en * ndof, en * ndof))
    detj = float(np.prod(grid.h / 2))
    for xi in gauss_points(grid.dim):
        N = shape(grid.dim, xi)
        for l in range(en):
            for m in range(en):
                for d in range(ndof):
                    M[l * ndof + d, m * ndof + d] += detj * grid.thickness * rho * N[l] * N[m]
    return M


def ke_poisson(grid, kappa):
    en = grid.en
    P = np.zeros((en, en))
    detj = float(np.prod(grid.h / 2))
    for xi in gauss_points(grid.dim):
        dN = dshape(grid.dim, xi, grid.h)
        for l in range(en):
            for m in range(en):
                P[l, m] += detj * grid.thickness * kappa * float(dN[:, l] @ dN[:, m])
    return P


def scatter(grid, ndof, Ke, x):
    """A = sum_e x_e Ke scattered through the (own) connectivity: plain triple loop."""
    n = grid.nnodes * ndof
    A = np.zeros((n, n), dtype=np.result_type(Ke.dtype, np.asarray(x).dtype, float))
    m = grid.en * ndof
    for e in range(grid.nel):
        dofs = grid.dofs(e, ndof)
        xe = x[e]
        for p in range(m):
            dp = dofs[p]
            for q in range(m):
                A[dp, dofs[q]] += xe * Ke[p, q]
    return A


def apply_bc(A, bc, diagval):
    A = A.copy()
    for b in bc:
        A[b, :] = 0.0
        A[:, b] = 0.0
    for b in bc:
        A[b, b] = diagval
    return A


def rigid_body_modes(grid):
    """Rigid-body displacement fields (interleaved dofs): dim translations + 1 (2D) / 3 (3D) rotations."""
    dim, pos = grid.dim, grid.pos
    modes = []
    for a in range(dim):
        r = np.zeros((grid.nnodes, dim))
        r[:, a] = 1.0
        modes.append((f"t{a}", r.ravel()))
    pairs = [(0, 1)] if dim == 2 else [(0, 1), (1, 2), (2, 0)]
    for a, b in pairs:
        r = np.zeros((grid.nnodes, dim))
        r[:, a] = -pos[:, b]
        r[:, b] = pos[:, a]
        modes.append((f"r{a}{b}", r.ravel()))
    return modes


def voigt_pairs(dim):
    """pyMOTO's documented component order: 2D [xx, yy, xy]; 3D [xx, yy, zz, yz, zx, xy]."""
    return [(0, 0), (1, 1), (0, 1)] if dim == 2 else [(0, 0), (1, 1), (2, 2), (1, 2), (2, 0), (0, 1)]


def d_matrix(dim, E, nu, mode):
    """Constitutive matrix for engineering-shear Voigt vectors in the documented order, from the index-form tensor."""
    lam, mu = lame(E, nu, "3d" if dim == 3 else mode)
    pr = voigt_pairs(dim)
    D = np.zeros((len(pr), len(pr)))

    def c(i, j, k, l):
        return lam * (i == j) * (k == l) + mu * ((i == k) * (j == l) + (i == l) * (j == k))
    for I, (i, j) in enumerate(pr):
        for J, (k, l) in enumerate(pr):
            D[I, J] = c(i, j, k, l)   # sigma_ij = C_ijkl eps_kl = ... + C_ijkl gamma_kl (k<l counted once with gamma)
    return D


def voigt_strain(dim, G):
    """Engineering Voigt strain of the displacement gradient G[a,b] = d u_a / d x_b."""
    G = np.asarray(G, dtype=float)
    out = []
    for (i, j) in voigt_pairs(dim):
        out.append(G[i, i] if i == j else G[i, j] + G[j, i])
    return np.array(out)
