"""C04 — backpropagation is linear in the seed, accumulative and leaves states untouched (DESIGN §3 C04)."""
import copy
import traceback
import numpy as np
from hypothesis import strategies as st
from pbt.harness import viol
from pbt.common import SEED
from pbt import adjoint as adj
from pbt.recipes import RECIPES
from pbt.props.c01_adjoint import from_pymoto, exc_site

PROPERTY_ID = "C04"
RULE = ("case = (module recipe as in C01, options, payload_seed, scalars a,b from {0,+-1,2.5,-0.3,1e3} times a common magnitude {1,1e-10,1e-13,1e8}, repetitions k in "
        "1..3). Metamorphic oracle on one module object: (i) g(a*w1+b*w2) == a*g(w1)+b*g(w2); (ii) k sensitivity() calls "
        "without reset give k*g (seeds are handed over without copying, as finite_difference does); (iii) bit-wise "
        "snapshots of all input and output states are identical before/after sensitivity() and reset(); (iv) response() "
        "leaves input states and already-set sensitivities bit-identical. Non-trivial = two independent seeds and a "
        "non-zero sensitivity. Distinct = sha1 of the case JSON.")
ASSUMPTIONS = [
    "same module set and admissible-input construction as C01 (see its assumptions)",
    "tolerance 1e-10 relative; 1e-5 where LDAWrapper reconstruction (residual tolerance 1e-7) or CG is involved",
]

SCAL = [0.0, 1.0, -1.0, 2.5, -0.3, 1e3]


def budget(tier):
    return {"examples": 6000 if tier == "quick" else 80000, "shards": 16, "shrink": 200 if tier == "quick" else 1500}


def strategy(tier):
    names = sorted(RECIPES)

    def one(name):
        return st.fixed_dictionaries({"recipe": st.just(name), "opts": RECIPES[name].opts(tier), "payload_seed": SEED,
                                      "a": st.sampled_from(SCAL), "b": st.sampled_from(SCAL), "k": st.sampled_from([2, 3, 3, 4]),
                                      # split: w1 and w2 seed complementary subsets of the outputs (the others stay
                                      # None), so that the combined seed has a different None-pattern than either part
                                      "split": st.booleans(),
                                      # common magnitude of a and b: linearity must hold for tiny and huge seeds alike
                                      "ab_scale": st.sampled_from([1.0, 1.0, 1.0, 1e-10, 1e-13, 1e8])})
    return st.sampled_from(names).flatmap(one)


def nontrivial(labels):
    return "independent_seeds" in labels and "nonzero_g" in labels


def dense_list(gs):
    out = []
    for g in gs:
        d = adj.to_dense(g)
        out.append(None if d is None else np.array(d, copy=True))
    return out


def combine(a, w1, b, w2):
    if w1 is None and w2 is None:
        return None
    if w1 is None:
        w1, a = w2, 0.0
    if w2 is None:
        w2, b = w1, 0.0
    if adj.is_dyad(w1):
        return a * w1 + b * w2
    r = a * np.asarray(w1) + b * np.asarray(w2)
    if not isinstance(w1, np.ndarray):
        r = complex(r) if np.iscomplexobj(r) else float(r)
    return r


def close(x, y, tol):
    if x is None and y is None:
        return True, 0.0
    x0 = np.zeros_like(y) if x is None else x
    y0 = np.zeros_like(x) if y is None else y
    if np.shape(x0) != np.shape(y0):
        return False, float("inf")
    s = max(np.max(np.abs(x0), initial=0.0), np.max(np.abs(y0), initial=0.0))
    if s == 0:
        return True, 0.0
    r = float(np.max(np.abs(x0 - y0), initial=0.0) / s)
    return r <= tol, r


def check_case(case):
    name = case["recipe"]
    R = RECIPES[name]
    rng = np.random.default_rng(case["payload_seed"])
    labels = [f"recipe:{name}"]
    V = []

    def bad(kind, detail):
        V.append(viol(f"C04:{kind}", f"{detail} | case={case}"))

    try:
        b = R.build(case["opts"], rng)
    except Exception as e:
        if from_pymoto(e):
            return labels + ["construct_raises(C01)"], V
        raise
    labels += b.labels
    if getattr(b, "skip", False):
        return labels + ["skipped_illposed"], V
    comp = type(b.mod).__name__
    lda = any(lb in ("linsolve", "sysofeq") for lb in b.labels) and "nolda" not in b.labels
    tol = 1e-5 if (lda or "solver:cg" in b.labels) else 1e-10
    sigs = b.sin + b.sout

    def states():
        return [adj.snapshot(s.state) for s in sigs]

    def guarded(fn, what):
        try:
            return True, fn()
        except Exception as e:
            if from_pymoto(e):
                # raising is C01's subject ("completes without raising"); here it only ends the case
                labels.append(f"raises_in_{what}(C01)")
                return False, None
            raise

    ok, _ = guarded(b.mod.response, "response")
    if not ok:
        return labels, V
    ys = b.outputs()
    w1 = b.seeds(rng, ys)
    w2 = b.seeds(rng, ys)
    if all(w is None for w in w1):
        return labels + ["no_seed"], V
    live = [i for i, w in enumerate(w1) if w is not None]
    if case.get("split") and len(live) >= 2:
        first = set(live[::2])
        w1 = [w if i in first else None for i, w in enumerate(w1)]
        w2 = [w if (i in live and i not in first) else None for i, w in enumerate(w2)]
        labels.append("split_seeds")
    if sum(np.size(adj.to_dense(w)) for w in w1 if w is not None) > 1:
        labels.append("independent_seeds")

    def run(ws, k):
        """reset, seed with the objects ws themselves (no copy), call sensitivity k times; returns dense copies of
        input sensitivities after each call, plus state snapshots around the calls."""
        b.mod.reset()
        for s, w in zip(b.sout, ws):
            s.sensitivity = w
        s0 = states()
        res = []
        for _ in range(k):
            b.mod.sensitivity()
            res.append(dense_list([s.sensitivity for s in b.sin]))
        s1 = states()
        return res, s0, s1

    k = case["k"]
    # keep pristine copies of the seeds for the linear combination (a module may scribble on what it is handed)
    w1c, w2c = copy.deepcopy(w1), copy.deepcopy(w2)
    ok, r = guarded(lambda: run(w1, max(k, 2)), "sensitivity")
    if not ok:
        return labels, V
    res1, s0, s1 = r
    g1 = res1[0]
    if any(g is not None and np.any(g != 0) for g in g1):
        labels.append("nonzero_g")
    # (iii) states untouched by sensitivity()
    if s0 != s1:
        idx = [i for i, (p, q) in enumerate(zip(s0, s1)) if p != q]
        bad(f"state_changed_by_sensitivity:{comp}", f"signals {idx} (inputs first, then outputs) changed")
    # (ii) accumulation: j-th call gives j*g
    for j, gj in enumerate(res1[1:], start=2):
        for i, (ga, gb) in enumerate(zip(g1, gj)):
            okc, rel = close(None if ga is None else j * ga, gb, tol)
            if not okc:
                bad(f"accumulate:{comp}:in{i}", f"after {j} sensitivity() calls the input sensitivity is not {j}*g "
                                                f"(rel diff {rel:.3e})")
                break
    # reset leaves states untouched and clears sensitivities
    sb = states()
    b.mod.reset()
    if states() != sb:
        bad(f"state_changed_by_reset:{comp}", "a signal state changed in reset()")
    left = [i for i, s in enumerate(sigs) if s.sensitivity is not None and np.any(adj.to_dense(s.sensitivity) != 0)]
    if left:
        bad(f"reset_leaves_sensitivity:{comp}", f"signals {left} keep a non-zero sensitivity after reset()")
    # (i) linearity
    ok, r = guarded(lambda: run(w2, 1), "sensitivity")
    if not ok:
        return labels, V
    g2 = r[0][0]
    a, bb = case["a"] * case.get("ab_scale", 1.0), case["b"] * case.get("ab_scale", 1.0)
    if case.get("ab_scale", 1.0) != 1.0:
        labels.append(f"ab_scale_{case['ab_scale']:g}")
    wc = [combine(a, x, bb, y) for x, y in zip(w1c, w2c)]
    ok, r = guarded(lambda: run(wc, 1), "sensitivity")
    if not ok:
        return labels, V
    gc = r[0][0]
    for i, (x, y, z) in enumerate(zip(g1, g2, gc)):
        exp = None
        if x is not None or y is not None:
            xx = np.zeros_like(y) if x is None else x
            yy = np.zeros_like(x) if y is None else y
            exp = a * xx + bb * yy
        # scale-aware: compare with the magnitude of the separate terms (a or b may be large)
        okc, rel = close(exp, z, tol)
        if not okc and exp is not None and z is not None and np.shape(exp) == np.shape(z):
            s = abs(a) * np.max(np.abs(x), initial=0) if x is not None else 0
            s += abs(bb) * np.max(np.abs(y), initial=0) if y is not None else 0
            okc = s > 0 and float(np.max(np.abs(exp - z))) <= tol * s
        if not okc:
            bad(f"linearity:{comp}:in{i}", f"g({a}*w1+{bb}*w2) != {a}*g(w1)+{bb}*g(w2) (rel diff {rel:.3e})")
            break
    # (i') the first seed once more, after w2 and the combination were back-propagated on the same module object: the
    # result is a function of the current seeds only (any buffer kept between sensitivity() calls shows up here)
    ok, r = guarded(lambda: run(copy.deepcopy(w1c), 1), "sensitivity")
    if ok:
        for i, (x, y) in enumerate(zip(g1, r[0][0])):
            okc, rel = close(x, y, tol)
            if not okc:
                bad(f"repeat_after_other_seeds:{comp}:in{i}", f"g(w1) evaluated again after g(w2) and g(a*w1+b*w2) differs "
                                                              f"from the first g(w1) (rel diff {rel:.3e})")
                break
    # (iv) response() leaves input states and set sensitivities bit-identical
    b.mod.reset()
    for s, w in zip(b.sout, copy.deepcopy(w1c)):
        s.sensitivity = w
    ok, _ = guarded(b.mod.sensitivity, "sensitivity")
    if ok:
        sin_states = [adj.snapshot(s.state) for s in b.sin]
        sens = [adj.snapshot(s.sensitivity) for s in sigs]
        ok, _ = guarded(b.mod.response, "response")
        if ok:
            if [adj.snapshot(s.state) for s in b.sin] != sin_states:
                bad(f"input_state_changed_by_response:{comp}", "an input state changed in response()")
            if [adj.snapshot(s.sensitivity) for s in sigs] != sens:
                bad(f"sensitivity_changed_by_response:{comp}", "a sensitivity changed in response()")
    return labels, V
