"""C13 — structured-grid numbering, connectivity and shape functions are consistent."""
import itertools
import numpy as np
from hypothesis import strategies as st
from pbt.harness import viol

PROPERTY_ID = "C13"
RULE = ("case = grid (nelx,nely,nelz; nelz=0 means 2D), element sizes, dofs per node and evaluation points inside the "
        "reference element (incl. faces/corners/centroid). All grids up to the stated bound are enumerated with unit "
        "sizes; Hypothesis adds sizes/ndof/points. Non-trivial = all of nelx,nely(,nelz) > 1 and pairwise different "
        "(a transposed stride is then visible). Distinct = sha1 of the canonical case JSON.")
EXHAUSTIVE_NOTE = "grid sizes: quick 2D 1..7 x 1..7 and 3D 1..4^3; thorough 2D 1..12^2 and 3D 1..6^3 (unit sizes, ndof=2)"
FUZZ = {"quick": 0, "thorough": 3000, "instrument": "pymoto.common.domain"}
ASSUMPTIONS = ["1-D domains (nely=0) are outside the property's quantifier (2D and 3D) and are not generated",
               "documented local node order: local node l sits at corner (a,b,c) = bits (1,2,4) of l"]


def budget(tier):
    return {"examples": 2400 if tier == "quick" else 40000, "shards": 16}


def enumerate_cases(tier):
    n2, n3 = (7, 4) if tier == "quick" else (12, 6)
    out = []
    for nx, ny in itertools.product(range(1, n2 + 1), repeat=2):
        out.append({"nel": [nx, ny, 0], "unit": [1.0, 1.0, 1.0], "ndof": 2, "pts": [[0.0, 0.0, 0.0], [0.25, -0.5, 0.5]]})
    for nx, ny, nz in itertools.product(range(1, n3 + 1), repeat=3):
        out.append({"nel": [nx, ny, nz], "unit": [1.0, 1.0, 1.0], "ndof": 2, "pts": [[0.0, 0.0, 0.0], [0.25, -0.5, 0.5]]})
    return out


def strategy(tier):
    big = tier != "quick"
    coord = st.one_of(st.sampled_from([-0.5, 0.0, 0.5]), st.floats(-0.5, 0.5, allow_nan=False))
    unit = st.one_of(st.sampled_from([1.0, 0.5, 2.0]), st.floats(0.2, 5.0, allow_nan=False))

    @st.composite
    def case(draw):
        dim = draw(st.sampled_from([2, 3]))
        if dim == 2:
            m = 14 if big else 8
            nel = [draw(st.integers(1, m)), draw(st.integers(1, m)), 0]
        else:
            m = 7 if big else 5
            nel = [draw(st.integers(1, m)) for _ in range(3)]
        units = [draw(unit) for _ in range(3)]
        if draw(st.sampled_from([False, False, True])):
            units = [draw(st.integers(1, 3)) for _ in range(3)]     # integer-typed element sizes
        # physical length scale (nanometre / micrometre pixels in metres, kilometre cells)
        uscale = draw(st.sampled_from([1.0, 1.0, 1.0, 1e-9, 1e-6, 1e3]))
        if uscale != 1.0:
            units = [float(u) * uscale for u in units]
        return {"nel": nel, "unit": units, "ndof": draw(st.integers(1, 4)),
                "pts": draw(st.lists(st.lists(coord, min_size=3, max_size=3), min_size=1, max_size=4)),
                # custom local node order ("users may override this in their program to use custom numbering"):
                # a permutation of the default node_numbering table, assigned after construction
                "renumber": draw(st.one_of(st.none(), st.none(), st.integers(0, 10 ** 6)))}
    return case()


def nontrivial(labels):
    return "distinct_sizes" in labels


def check_case(case):
    import pymoto as pym
    nx, ny, nz = case["nel"]
    ux, uy, uz = case["unit"]
    ndof = case["ndof"]
    dim = 2 if nz == 0 else 3
    labels = [f"dim{dim}"]
    sizes = [nx, ny] if dim == 2 else [nx, ny, nz]
    if len(set(sizes)) == len(sizes) and min(sizes) > 1:
        labels.append("distinct_sizes")
    V = []

    def bad(bucket, detail):
        V.append(viol(f"C13:{bucket}", f"{detail} | grid={case['nel']} unit={case['unit']}"))

    try:
        dom = pym.DomainDefinition(nx, ny, nz, unitx=ux, unity=uy, unitz=uz)
    except Exception as e:
        bad("raises:init", repr(e))
        return labels, V
    try:
        _check_grid(dom, nx, ny, nz, dim, ndof, [ux, uy, uz], bad)
        _check_shape(dom, dim, [ux, uy, uz], case["pts"], bad)
        _check_no_alias(pym.DomainDefinition(nx, ny, nz, unitx=ux, unity=uy, unitz=uz), ndof, bad)
        if case.get("renumber") is not None:
            labels.append("custom_node_numbering")
            _check_custom_numbering(pym, case, dim, bad)
    except Exception as e:  # the code under test raised on an admissible input
        import traceback
        bad(f"raises:{type(e).__name__}", traceback.format_exc()[-800:])
    return labels, V


def _check_grid(dom, nx, ny, nz, dim, ndof, unit, bad):
    nzz = max(nz, 1)
    nel, nnod = nx * ny * nzz, (nx + 1) * (ny + 1) * (nz + 1)
    if dom.dim != dim or dom.nel != nel or dom.nnodes != nnod or dom.elemnodes != 2 ** dim:
        bad("counts", f"dim/nel/nnodes/elemnodes = {dom.dim},{dom.nel},{dom.nnodes},{dom.elemnodes}")
    # --- element numbering is a bijection, scalar/array agree, elements table agrees
    en = np.empty((nx, ny, nzz), dtype=np.int64)
    for i in range(nx):
        for j in range(ny):
            for k in range(nzz):
                en[i, j, k] = dom.get_elemnumber(i, j, k)
    if sorted(en.ravel().tolist()) != list(range(nel)):
        bad("elemnumber_bijection", f"element numbers {sorted(en.ravel().tolist())[:10]}...")
    I, J, K = np.meshgrid(np.arange(nx), np.arange(ny), np.arange(nzz), indexing="ij")
    if not np.array_equal(np.asarray(dom.get_elemnumber(I, J, K)), en):
        bad("elemnumber_array", "array call differs from scalar calls")
    if not np.array_equal(np.asarray(dom.elements).reshape(nx, ny, nzz), en):
        bad("elements_table", "domain.elements differs from get_elemnumber")
    # --- node numbering
    nn = np.empty((nx + 1, ny + 1, nz + 1), dtype=np.int64)
    for i in range(nx + 1):
        for j in range(ny + 1):
            for k in range(nz + 1):
                nn[i, j, k] = dom.get_nodenumber(i, j, k)
    if sorted(nn.ravel().tolist()) != list(range(nnod)):
        bad("nodenumber_bijection", "node numbers are not a bijection onto range(nnodes)")
        return
    NI, NJ, NK = np.meshgrid(np.arange(nx + 1), np.arange(ny + 1), np.arange(nz + 1), indexing="ij")
    if not np.array_equal(np.asarray(dom.get_nodenumber(NI, NJ, NK)), nn):
        bad("nodenumber_array", "array call differs from scalar calls")
    if not np.array_equal(np.asarray(dom.nodes).reshape(nx + 1, ny + 1, nz + 1), nn):
        bad("nodes_table", "domain.nodes differs from get_nodenumber")
    # --- get_node_indices inverts get_nodenumber; positions = index * size
    ijk_all = np.asarray(dom.get_node_indices())
    pos_all = np.asarray(dom.get_node_position())
    if ijk_all.shape != (dim, nnod) or pos_all.shape != (dim, nnod):
        bad("node_indices_shape", f"{ijk_all.shape} {pos_all.shape}")
        return
    for i in range(nx + 1):
        for j in range(ny + 1):
            for k in range(nz + 1):
                n = int(nn[i, j, k])
                want = [i, j, k][:dim]
                if ijk_all[:, n].tolist() != want:
                    bad("node_indices_inverse", f"node {n}: indices {ijk_all[:, n].tolist()} expected {want}")
                    return
                got1 = np.asarray(dom.get_node_indices(n)).tolist()
                if got1 != want:
                    bad("node_indices_scalar", f"node {n}: scalar call {got1} expected {want}")
                    return
                wp = np.array(want, dtype=float) * np.array(unit[:dim])
                if not np.allclose(pos_all[:, n], wp, rtol=1e-14, atol=0):
                    bad("node_position", f"node {n}: {pos_all[:, n]} expected {wp}")
                    return
    sub = np.arange(nnod)[::2]
    if not np.array_equal(np.asarray(dom.get_node_indices(sub)), ijk_all[:, sub]):
        bad("node_indices_array", "array subset differs")
    if not np.allclose(np.asarray(dom.get_node_position(sub)), pos_all[:, sub], rtol=1e-14, atol=0):
        bad("node_position_array", "array subset differs")
    # --- connectivity: local node l at corner bits (a,b,c)
    conn = np.asarray(dom.conn)
    if conn.shape != (nel, 2 ** dim):
        bad("conn_shape", str(conn.shape))
        return
    for i in range(nx):
        for j in range(ny):
            for k in range(nzz):
                e = int(en[i, j, k])
                want = []
                for l in range(2 ** dim):
                    a, b, c = l & 1, (l >> 1) & 1, (l >> 2) & 1
                    want.append(int(nn[i + a, j + b, (k + c) if dim == 3 else 0]))
                if conn[e].tolist() != want:
                    bad("conn_corners", f"element ({i},{j},{k}) #{e}: conn {conn[e].tolist()} expected {want}")
                    return
                got = np.asarray(dom.get_elemconnectivity(i, j, k)).tolist()
                if got != want:
                    bad("elemconnectivity_scalar", f"element ({i},{j},{k}): {got} expected {want}")
                    return
    # --- array arguments: 1-D index vectors and N-D (meshgrid) index arrays give conn of the addressed elements,
    #     in the shape of the index arrays with the local node axis last
    if dim == 3:
        got_nd = np.asarray(dom.get_elemconnectivity(I, J, K))
        want_nd = conn[en]
    else:
        got_nd = np.asarray(dom.get_elemconnectivity(I[:, :, 0], J[:, :, 0]))
        want_nd = conn[en[:, :, 0]]
    if got_nd.shape != want_nd.shape or not np.array_equal(got_nd, want_nd):
        bad("elemconnectivity_ndarray", f"N-D index arrays: shape {got_nd.shape} (expected {want_nd.shape}) or values "
                                        f"differ from conn[element numbers]")
    ii, jj, kk = I.ravel(), J.ravel(), K.ravel()
    got_1d = np.asarray(dom.get_elemconnectivity(ii, jj, kk) if dim == 3 else dom.get_elemconnectivity(ii, jj))
    if got_1d.shape != (nel, 2 ** dim) or not np.array_equal(got_1d, conn[en.ravel()]):
        bad("elemconnectivity_1darray", "1-D index arrays differ from conn[element numbers]")
    # broadcastable index arrays (nx,1) x (1,ny)
    if dim == 2:
        got_b = np.asarray(dom.get_elemconnectivity(np.arange(nx)[:, None], np.arange(ny)[None, :]))
        if got_b.shape != (nx, ny, 4) or not np.array_equal(got_b, conn[en[:, :, 0]]):
            bad("elemconnectivity_broadcast", f"broadcast index arrays: shape {got_b.shape}, expected {(nx, ny, 4)}")
    # --- dof connectivity
    dc = np.asarray(dom.get_dofconnectivity(ndof))
    want = np.empty((nel, 2 ** dim * ndof), dtype=np.int64)
    for l in range(2 ** dim):
        for d in range(ndof):
            want[:, l * ndof + d] = conn[:, l] * ndof + d
    if dc.shape != want.shape or not np.array_equal(dc, want):
        bad("dofconnectivity", f"ndof={ndof}: differs from conn*ndof+d expansion")


def _check_no_alias(dom, ndof, bad):
    """Tables handed out by the query methods belong to the caller: renumbering one in place (e.g. `dc += offset` for a
    second physical field) must not change what the domain answers afterwards, nor its conn/elements/nodes tables."""
    nzz = max(dom.nelz, 1)
    I, J, K = np.meshgrid(np.arange(dom.nelx), np.arange(dom.nely), np.arange(nzz), indexing="ij")
    queries = {
        "get_dofconnectivity(1)": lambda: dom.get_dofconnectivity(1),
        f"get_dofconnectivity({ndof})": lambda: dom.get_dofconnectivity(ndof),
        "get_elemconnectivity(arrays)": lambda: dom.get_elemconnectivity(I, J, K),
        "get_node_indices()": lambda: dom.get_node_indices(),
        "get_node_position()": lambda: dom.get_node_position(),
        "get_elemnumber(arrays)": lambda: dom.get_elemnumber(I, J, K),
    }
    tables = {"conn": np.array(dom.conn, copy=True), "elements": np.array(dom.elements, copy=True),
              "nodes": np.array(dom.nodes, copy=True)}
    for name, q in queries.items():
        r = q()
        if not isinstance(r, np.ndarray) or r.size == 0:
            continue
        before = np.array(r, copy=True)
        try:
            r += 7 * (dom.nnodes + 3)
        except (ValueError, TypeError):   # read-only or non-numeric result: nothing can be corrupted through it
            continue
        again = np.asarray(q())
        if again.shape != before.shape or not np.array_equal(again, before):
            bad("alias:query_result", f"after modifying the array returned by {name} in place, the same query returns "
                                      f"different values")
            return
        for tn, tv in tables.items():
            if not np.array_equal(np.asarray(getattr(dom, tn)), tv):
                bad("alias:internal_table", f"modifying the array returned by {name} in place changed domain.{tn}")
                return


def _check_custom_numbering(pym, case, dim, bad):
    """A second domain whose node_numbering table is permuted after construction: connectivity of single elements and
    the shape functions must both follow the new local order (shape function l is one at the l-th connected node)."""
    nx, ny, nz = case["nel"]
    ux, uy, uz = case["unit"]
    rng = np.random.default_rng(case["renumber"])
    dom = pym.DomainDefinition(nx, ny, nz, unitx=ux, unity=uy, unitz=uz)
    ref = pym.DomainDefinition(nx, ny, nz, unitx=ux, unity=uy, unitz=uz)       # default order: node numbers only
    perm = rng.permutation(2 ** dim)
    if np.array_equal(perm, np.arange(2 ** dim)):
        perm = perm[::-1].copy()
    table = [list(dom.node_numbering[int(q)]) for q in perm]
    default_table = [list(t) for t in ref.node_numbering]
    if case["renumber"] % 2:
        dom.node_numbering[:] = table          # customised in place (entries of the existing list are replaced)
    else:
        dom.node_numbering = table
    # the customisation belongs to this domain object only: domains built before and after keep the default order
    later = pym.DomainDefinition(nx, ny, nz, unitx=ux, unity=uy, unitz=uz)
    for name, other in (("an earlier", ref), ("a later", later)):
        if [list(t) for t in other.node_numbering] != default_table:
            bad("custom_numbering:leaks_to_other_domain", f"customising node_numbering of one domain changed the table of "
                                                          f"{name} domain: {other.node_numbering}")
            return
        c0 = np.asarray(other.get_elemconnectivity(0, 0, 0)).ravel().tolist()
        w0 = [int(ref.get_nodenumber(max(t[0], 0), max(t[1], 0), max(t[2], 0))) for t in default_table]
        if c0 != w0 or np.asarray(other.conn)[int(other.get_elemnumber(0, 0, 0))].tolist() != w0:
            bad("custom_numbering:leaks_to_other_domain", f"connectivity of {name} default domain is {c0}, expected {w0}")
            return
    h = np.array([ux, uy, uz][:dim], dtype=float)
    nzz = max(nz, 1)
    elems = {(0, 0, 0), (nx - 1, ny - 1, nzz - 1), (int(rng.integers(0, nx)), int(rng.integers(0, ny)), int(rng.integers(0, nzz)))}
    for (i, j, k) in sorted(elems):
        conn = np.asarray(dom.get_elemconnectivity(i, j, k)).ravel()
        want = [int(ref.get_nodenumber(i + max(t[0], 0), j + max(t[1], 0), k + max(t[2], 0))) for t in table]
        if conn.tolist() != want:
            bad("custom_numbering:connectivity", f"element ({i},{j},{k}): {conn.tolist()} expected {want} for table {table}")
            return
    for l, t in enumerate(table):
        N = np.asarray(dom.eval_shape_fun(np.array(t[:dim]) * h / 2))
        e = np.zeros(2 ** dim)
        e[l] = 1
        if N.shape != e.shape or not np.allclose(N, e, atol=1e-14):
            bad("custom_numbering:shape_kronecker", f"local node {l} at {t[:dim]}: N={N} for table {table}")
            return
    x = np.array(case["pts"][0][:dim]) * h
    N = np.asarray(dom.eval_shape_fun(x))
    want = np.array([np.prod([0.5 + t[a] * x[a] / h[a] for a in range(dim)]) for t in table])
    if N.shape != want.shape or not np.allclose(N, want, atol=1e-13):
        bad("custom_numbering:shape_value", f"N={N} expected {want} at {x}")
    dN = np.asarray(dom.eval_shape_fun_der(x))
    wd = np.array([[t[a] / h[a] * np.prod([0.5 + t[b] * x[b] / h[b] for b in range(dim) if b != a]) for t in table]
                   for a in range(dim)])
    if dN.shape != wd.shape or not np.allclose(dN, wd, atol=1e-12 / h.min()):
        bad("custom_numbering:shape_derivative", f"dN={dN} expected {wd} at {x}")


def _check_shape(dom, dim, unit, pts, bad):
    h = np.array(unit[:dim])
    nod = [[(-1 if ((l >> a) & 1) == 0 else 1) for a in range(dim)] for l in range(2 ** dim)]
    # Kronecker delta at the nodes
    for l, sg in enumerate(nod):
        N = np.asarray(dom.eval_shape_fun(np.array(sg) * h / 2))
        e = np.zeros(2 ** dim)
        e[l] = 1
        if N.shape != e.shape or not np.allclose(N, e, atol=1e-14):
            bad("shape_kronecker", f"at node {l}: N={N}")
            return
    for p in pts:
        x = np.array(p[:dim]) * h
        N = np.asarray(dom.eval_shape_fun(x))
        if N.shape != (2 ** dim,):
            bad("shape_shape", str(N.shape))
            return
        if N.min() < -1e-15:
            bad("shape_nonneg", f"min N = {N.min()} at {x}")
        if abs(N.sum() - 1) > 1e-13:
            bad("shape_partition_of_unity", f"sum N = {N.sum()} at {x}")
        xr = sum(N[l] * np.array(nod[l]) * h / 2 for l in range(2 ** dim))
        if not np.allclose(xr, x, atol=1e-13 * h.max()):
            bad("shape_reproduces_point", f"sum N_l pos_l = {xr} at {x}")
        # own reference: product of 1-D hat functions
        ref = np.array([np.prod([0.5 + nod[l][a] * x[a] / h[a] for a in range(dim)]) for l in range(2 ** dim)])
        if not np.allclose(N, ref, atol=1e-13):
            bad("shape_value", f"N={N} expected {ref} at {x}")
        dN = np.asarray(dom.eval_shape_fun_der(x))
        if dN.shape != (dim, 2 ** dim):
            bad("der_shape", str(dN.shape))
            return
        if dim == 2:
            # the z entry of the evaluation point is optional in 2D (assembly.py always passes three entries): it must not
            # change anything
            x3 = np.array([x[0], x[1], p[2] * unit[2]])
            N3, dN3 = np.asarray(dom.eval_shape_fun(x3)), np.asarray(dom.eval_shape_fun_der(x3))
            if N3.shape != N.shape or not np.allclose(N3, N, rtol=0, atol=1e-14):
                bad("shape_value_with_z_entry", f"2D domain: N(x, y, z) = {N3} but N(x, y) = {N} at {x3}")
            if dN3.shape != dN.shape or not np.allclose(dN3, dN, rtol=0, atol=1e-13 / h.min()):
                bad("der_with_z_entry", f"2D domain: dN(x, y, z) = {dN3} but dN(x, y) = {dN} at {x3}")
        if np.abs(dN.sum(axis=1)).max() > 1e-12 / h.min():
            bad("der_sum_zero", f"sum_l dN_l = {dN.sum(axis=1)} at {x}")
        for a in range(dim):
            d = 0.1 * h[a]
            xp, xm = x.copy(), x.copy()
            xp[a] += d
            xm[a] -= d  # multilinear: central difference is exact (evaluation outside the element is still polynomial)
            fd = (np.asarray(dom.eval_shape_fun(xp)) - np.asarray(dom.eval_shape_fun(xm))) / (2 * d)
            if not np.allclose(dN[a], fd, rtol=1e-9, atol=1e-10 / h.min()):
                bad("der_is_gradient", f"d/dx{a}: {dN[a]} vs central difference {fd} at {x}")
