"""C03 — results depend only on current inputs and seeds, never on call history (DESIGN §3 C03).

A case = network template + options + a generated history (list of ops) over {set design k, response, seed, sensitivity,
sensitivity twice, reset, reset single module}. After the history the same objects run reset->response->seed->sensitivity
and are compared with a freshly constructed identical network evaluated once.
"""
import traceback
import numpy as np
import scipy.sparse as sps
from hypothesis import strategies as st
from pbt.harness import viol
from pbt.common import SEED
from pbt import adjoint as adj
from pbt.props.c01_adjoint import from_pymoto, exc_site

PROPERTY_ID = "C03"
RULE = ("case = network template (T1 filter->SIMP->stiffness->LinSolve->compliance with solver variants; T2 assembly->"
        "sparse EigenSolve; T3 OverhangFilter->weighted sum; T4 assembly->SystemOfEquations; T5 assembly->"
        "StaticCondensation; T6 dense matrix function->LinSolve/Inverse/EigenSolve; T7 filter->aggregation with active "
        "set/undamped scaling; T8 void/solid (exactly zero) element scalings->Poisson assembly->LinSolve) + options + history of 5-40 ops respecting response-before-sensitivity. Oracle: after the "
        "history, reset->response->seed->sensitivity on the used objects equals a freshly built identical network "
        "evaluated once (1e-9 direct; 1e-5 where LDAS reconstruction/CG/ARPACK is involved) -- the same comparison is made for "
        "up to six sensitivity passes inside the history that directly follow a full reset (with or without a new "
        "response in between); after every reset no "
        "sensitivity is left; sensitivity() without seed changes nothing. Non-trivial = prefix has >=2 responses with "
        "different designs and >=1 sensitivity.")
ASSUMPTIONS = [
    "documented memories are excluded by construction: plain Scaling, damped AggScaling, writer counters",
    "designs keep matrices in one class per template (symmetric FE matrices; dense symmetric/general per option); the symmetry class is constant, the dtype need not be: linsolve_dtype alternates real and complex general (non-symmetric, non-Hermitian) matrices",
    "sparse EigenSolve (T2) is seeded on eigenvalues and on per-mode eigenvector functionals; eigenvector comparisons are "
    "skipped (label eig_close_skipped) when a returned eigenvalue is not separated (2e-2 relative) from the rest of the "
    "pencil's spectrum; the singular-factorisation raise of _sparse_eigvec_sens is the known finding recorded for C01",
]

TEMPLATES = ["T1", "T1", "T2", "T2", "T3", "T4", "T5", "T6", "T7", "T8", "T9"]


def budget(tier):
    return {"examples": 3000 if tier == "quick" else 40000, "shards": 16, "shrink": 100 if tier == "quick" else 600}


# how a new design is handed over: a new array object, or new values written into the array the signal already holds
SET_MODES = ["rebind", "inplace"]


def strategy(tier):
    big = tier != "quick"
    op = st.one_of(
        st.fixed_dictionaries({"op": st.just("set"), "k": st.integers(0, 3), "mode": st.sampled_from(SET_MODES)}),
        st.fixed_dictionaries({"op": st.just("response")}),
        st.fixed_dictionaries({"op": st.just("response")}),
        st.fixed_dictionaries({"op": st.just("seed"), "j": st.integers(0, 3), "w": st.integers(0, 2)}),
        st.fixed_dictionaries({"op": st.just("sens")}),
        st.fixed_dictionaries({"op": st.just("sens2")}),
        st.fixed_dictionaries({"op": st.just("reset")}),
        st.fixed_dictionaries({"op": st.just("reset_mod"), "i": st.integers(0, 8)}),
    )
    opts = st.fixed_dictionaries({
        "nx": st.integers(2, 5), "ny": st.integers(2, 4), "dim3": st.booleans(),
        "solver": st.sampled_from(["auto", "auto", "nolda", "cg", "cg_jacobi", "cg_sor", "cg_ilu", "cg_mg", "complex"]),
        "filter": st.sampled_from(["conv", "density"]), "multiload": st.sampled_from([0, 2, 3]),
        "nmodes": st.integers(1, 3), "gen": st.booleans(), "sigma": st.booleans(),
        "dir": st.integers(0, 5),
        "dense": st.sampled_from(["linsolve_sym", "linsolve_gen", "inverse", "eig_sym", "linsolve_sym_mixed",
                                  "linsolve_dtype"]),
        "fixK": st.booleans(),       # T2 (generalised): the stiffness matrix is a constant signal, only the mass depends on x
        "nonsym": st.booleans(),     # T4/T5: non-symmetric system matrix (AssembleGeneral with a non-symmetric element matrix)
        "agg": st.sampled_from(["pnorm", "ks", "soft"]), "agg_opt": st.sampled_from(["plain", "active", "undamped"]),
        # T1 (conv) / T7: fixed values registered on the FilterConv after construction (a solid strip outside the xmin
        # boundary via override_padded_values, or a non-design block via override_values), as in
        # examples/topology_optimization/ex_compliance_padding_filter.py
        "fc_override": st.sampled_from(["none", "none", "padded", "values"]),
        # T9: dtype of the design over the history: float throughout / integer-typed first design (np.ones(nel, dtype=int))
        # and an integer element matrix, then float designs / real and complex designs alternating
        "t9_dtypes": st.sampled_from(["float", "int_then_float", "real_complex"]),
        "final_k": st.integers(0, 3), "final_seeds": st.lists(st.integers(0, 3), min_size=1, max_size=3),
        "final_mode": st.sampled_from(SET_MODES),
    })
    # histories are built from optimisation-loop-like rounds (set, response, seeds, sensitivity, reset) with optional
    # parts, plus free random ops in between, so that most histories contain several complete cycles
    seed_op = st.fixed_dictionaries({"op": st.just("seed"), "j": st.integers(0, 5), "w": st.integers(0, 2)})
    set_op = st.fixed_dictionaries({"op": st.just("set"), "k": st.integers(0, 3), "mode": st.sampled_from(SET_MODES)})
    # round A: a full optimisation-loop cycle (set, response, seeds, sensitivity, reset), each part optional
    round_a = st.tuples(
        st.one_of(st.none(), set_op, set_op, set_op),
        st.sampled_from([[{"op": "response"}], [{"op": "response"}], [{"op": "response"}, {"op": "response"}], []]),
        st.lists(seed_op, max_size=2),
        st.sampled_from([[{"op": "sens"}], [{"op": "sens"}], [{"op": "sens2"}], []]),
        st.sampled_from([[{"op": "reset"}], [{"op": "reset"}], [], [{"op": "reset_mod", "i": 1}]]),
    ).map(lambda t: ([t[0]] if t[0] else []) + list(t[1]) + list(t[2]) + list(t[3]) + list(t[4]))
    # round B: another seed on the same response: reset, seeds, sensitivity -- no new response in between
    round_b = st.tuples(st.lists(seed_op, min_size=1, max_size=2), st.sampled_from(["sens", "sens", "sens2"])
                        ).map(lambda t: [{"op": "reset"}] + list(t[0]) + [{"op": t[1]}])
    # round C: free random ops
    round_c = st.lists(op, min_size=1, max_size=3)
    # round D: alternate the seeded output across designs (per-output caches): seed j on the current response, then a new
    # design seeded on another output only, then output j again without a new response
    round_d = st.tuples(st.integers(0, 5), st.integers(0, 5), st.integers(0, 3), st.integers(0, 2),
                        st.sampled_from(SET_MODES)).map(
        lambda t: [{"op": "response"}, {"op": "reset"}, {"op": "seed", "j": t[0], "w": t[3]}, {"op": "sens"},
                   {"op": "reset"}, {"op": "set", "k": t[2], "mode": t[4]}, {"op": "response"},
                   {"op": "seed", "j": t[1], "w": t[3]}, {"op": "sens"},
                   {"op": "reset"}, {"op": "seed", "j": t[0], "w": t[3]}, {"op": "sens"}])
    rnd_round = st.one_of(round_a, round_a, round_a, round_b, round_b, round_c, round_d)
    ops = st.lists(rnd_round, min_size=2, max_size=9 if big else 6).map(lambda rr: [o for r in rr for o in r][:90])
    return st.fixed_dictionaries({"template": st.sampled_from(TEMPLATES), "opts": opts, "ops": ops,
                                  "payload_seed": SEED})


def nontrivial(labels):
    return "two_designs" in labels and "sens_in_prefix" in labels


# ----------------------------------------------------------------------------------------------------------------
class Net:
    def __init__(self, net, sources, outputs, designs, tol, labels):
        self.net, self.sources, self.outputs, self.designs, self.tol, self.labels = net, sources, outputs, designs, tol, labels

    def all_signals(self):
        seen, out = set(), []

        def walk(m):
            if hasattr(m, "mods"):
                for mm in m.mods:
                    walk(mm)
            else:
                for s in list(m.sig_in) + list(m.sig_out):
                    if id(s) not in seen:
                        seen.add(id(s))
                        out.append(s)
        walk(self.net)
        return out


def _domain(o):
    import pymoto as pym
    if o["dim3"]:
        return pym.DomainDefinition(min(o["nx"], 3), min(o["ny"], 3), 2)
    return pym.DomainDefinition(o["nx"], o["ny"])


def _even_domain(o):
    import pymoto as pym
    if o["dim3"]:
        return pym.DomainDefinition(2, 2, 2)
    return pym.DomainDefinition(2 * ((o["nx"] + 1) // 2), 2 * ((o["ny"] + 1) // 2))


def _filterconv(pym, x, xf, dom, radius, how, labels):
    if how == "none":
        return pym.FilterConv(x, xf, dom, radius=radius)
    m = pym.FilterConv(x, xf, dom, radius=radius, xmin_bc=0, xmax_bc="symmetric", ymin_bc=0, ymax_bc=0)
    if how == "padded":
        xr = np.arange(m.pad_sizes[0])
        yr = m.pad_sizes[1] + np.arange(dom.nely // 3, dom.nely - dom.nely // 3)
        ex, ey, ez = np.meshgrid(xr, yr, np.array([0]))
        m.override_padded_values((ex, ey, ez), 1.0)
    else:
        mask = np.zeros((dom.nelx, dom.nely, 1), dtype=bool)
        mask[dom.nelx // 2:, :max(1, dom.nely // 2), 0] = True
        m.override_values(mask, 0.75)
    labels.append("filterconv_override:" + how)
    return m


def build(case):
    """Deterministic construction of the template network from the case (called twice: used objects and fresh)."""
    import pymoto as pym
    o, T = case["opts"], case["template"]
    rng = np.random.default_rng(case["payload_seed"])
    S = pym.Signal
    labels = [f"template:{T}"]
    tol = 1e-9
    if T == "T1":
        sol = o["solver"]
        dom = _even_domain(o) if sol == "cg_mg" else _domain(o)
        nel = dom.nel
        designs = [rng.uniform(0.2, 1.0, nel) for _ in range(4)]
        x = S("x", designs[0].copy())
        xf, xs, K, u, c = S("xf"), S("xs"), S("K"), S("u"), S("c")
        mods = []
        if o["filter"] == "conv":
            mods.append(_filterconv(pym, x, xf, dom, 1.5, o.get("fc_override", "none") if dom.dim == 2 else "none", labels))
        else:
            mods.append(pym.DensityFilter(x, xf, dom, radius=1.5))
        mods.append(pym.MathGeneral(xf, xs, expression="0.1 + 0.9*inp0^3"))
        ndof = dom.dim
        bc = np.sort(np.concatenate([np.asarray(dom.nodes[0]).flatten() * ndof + d for d in range(ndof)]))
        mods.append(pym.AssembleStiffness(xs, K, dom, bc=bc))
        n = dom.nnodes * ndof
        nl = o["multiload"]
        f0 = rng.standard_normal((n, nl)) if nl else rng.standard_normal(n)
        f0[bc] = 0
        if nl == 3:
            f0[:, 2] = 2 * f0[:, 0] - f0[:, 1]
            labels.append("dependent_loads")
        kw = {}
        Ssol = pym.solvers
        if sol == "cg":
            kw["solver"] = Ssol.CG(tol=1e-10)
        elif sol == "cg_jacobi":
            kw["solver"] = Ssol.CG(preconditioner=Ssol.DampedJacobi(w=0.8), tol=1e-10)
        elif sol == "cg_sor":
            kw["solver"] = Ssol.CG(preconditioner=Ssol.SOR(w=1.0), tol=1e-10)
        elif sol == "cg_ilu":
            kw["solver"] = Ssol.CG(preconditioner=Ssol.ILU(), tol=1e-10)
        elif sol == "cg_mg":
            kw["solver"] = Ssol.CG(preconditioner=Ssol.GeometricMultigrid(dom), tol=1e-10)
        if sol == "complex":
            # dynamic stiffness Z = K + 1j*w*C - w^2 M  (complex symmetric)
            M, Z = S("M"), S("Z")
            mods.append(pym.AssembleMass(xs, M, dom, ndof=ndof, bc=bc, bcdiagval=0.0))
            mods.append(_dynmat()([K, M], Z))
            f = S("f", f0 + 0j)
            mods.append(pym.LinSolve([Z, f], u, **kw))
            mods.append(pym.EinSum([u, f], c, expression="i,i->" if not nl else "ij,ij->"))
            labels.append("complex")
        else:
            f = S("f", f0)
            mods.append(pym.LinSolve([K, f], u, **kw))
            mods.append(pym.EinSum([u, f], c, expression="i,i->" if not nl else "ij,ij->"))
        if sol == "nolda":
            mods[-2].use_lda_solver = False
        else:
            tol = 1e-5
        labels.append(f"solver:{sol}")
        return Net(pym.Network(mods), [x], [c, u, xs], designs, tol, labels)
    if T == "T2":
        dom = _domain({**o, "dim3": False})
        designs = [rng.uniform(0.3, 1.0, dom.nel) for _ in range(4)]
        x, K, M, lam, Q, g = S("x", designs[0].copy()), S("K"), S("M"), S("lam"), S("Q"), S("g")
        bc = np.asarray(dom.nodes[0]).flatten()
        mods = [pym.AssemblePoisson(x, K, dom, bc=bc, bcdiagval=50.0)]
        if o["gen"] and o.get("fixK"):
            # K is assembled once (for a fixed reference design) and handed over as a constant signal: the SAME matrix
            # object enters EigenSolve in every response, only M changes with the design
            tmp = pym.AssemblePoisson(S("xref", np.full(dom.nel, 0.7)), S("Ktmp"), dom, bc=bc, bcdiagval=50.0)
            tmp.response()
            K = S("K", tmp.sig_out[0].state)
            mods = []
            labels.append("constant_K")
        ins = [K]
        if o["gen"]:
            mods.append(pym.AssembleMass(x, M, dom, bc=bc, bcdiagval=1.0))
            ins.append(M)
        kw = {"nmodes": o["nmodes"], "hermitian": True}
        if o["sigma"]:
            kw["sigma"] = 0.4
        mods.append(pym.EigenSolve(ins, [lam, Q], **kw))
        wts = S("wts", rng.uniform(0.5, 1.5, o["nmodes"]))
        mods.append(pym.EinSum([lam, wts], g, expression="i,i->"))
        outs = []
        # one scalar functional per mode on the eigenvector: g_j = c_j . Q[:, j]  (per-mode eigenvector seeds)
        for j in range(o["nmodes"]):
            cj, gj = S(f"c{j}", rng.uniform(0.5, 1.5, dom.nnodes)), S(f"gq{j}")
            mods.append(pym.EinSum([Q[:, j], cj], gj, expression="i,i->"))
            outs.append(gj)
        outs += [g, lam]
        net = Net(pym.Network(mods), [x], outs, designs, 1e-5, labels + ["shift" if o["sigma"] else "noshift"])
        net.eig = (K, M if o["gen"] else None, lam, o["nmodes"])
        return net
    if T == "T3":
        dom = _domain(o)
        designs = [rng.uniform(0.05, 0.95, dom.nel) for _ in range(4)]
        d3 = [[1, 0, 0], [-1, 0, 0], [0, 1, 0], [0, -1, 0], [0, 0, 1], [0, 0, -1]]
        d = d3[o["dir"] % (6 if dom.dim == 3 else 4)]
        x, y, g = S("x", designs[0].copy()), S("y"), S("g")
        wts = S("wts", rng.uniform(0.5, 1.5, dom.nel))
        mods = [pym.OverhangFilter(x, y, dom, direction=d), pym.EinSum([y, wts], g, expression="i,i->")]
        return Net(pym.Network(mods), [x], [g, y], designs, 1e-9, labels)
    if T in ("T4", "T5"):
        dom = _domain({**o, "dim3": False})
        designs = [rng.uniform(0.3, 1.0, dom.nel) for _ in range(4)]
        x, K = S("x", designs[0].copy()), S("K")
        if o.get("nonsym"):
            # positive definite symmetric part + skew part: every assembled A_ff is non-singular and non-symmetric
            Z = rng.standard_normal((4, 4))
            W = rng.standard_normal((4, 4))
            mods = [pym.AssembleGeneral(x, K, dom, element_matrix=Z @ Z.T + np.eye(4) + 0.5 * (W - W.T))]
            labels.append("nonsymmetric_matrix")
        else:
            mods = [pym.AssemblePoisson(x, K, dom)]
        n = dom.nnodes
        perm = rng.permutation(n)
        if T == "T4":
            p, f = np.sort(perm[:2]), np.sort(perm[2:])
            bf, xp, xx, bb = S("bf", rng.standard_normal(len(f))), S("xp", rng.standard_normal(len(p))), S("xx"), S("bb")
            mods.append(pym.SystemOfEquations([K, bf, xp], [xx, bb], free=f, prescribed=p))
            return Net(pym.Network(mods), [x, bf, xp], [xx, bb], designs, 1e-5, labels)
        m, p, f = np.sort(perm[:2]), perm[2:3], np.sort(perm[3:])
        Ared = S("Ared")
        mods.append(pym.StaticCondensation(K, Ared, main=m, free=f))
        return Net(pym.Network(mods), [x], [Ared], designs, 1e-9, labels)
    if T == "T6":
        import pymoto as pym
        n, k = 4, 3
        kind = o["dense"]
        sym = kind not in ("linsolve_gen", "linsolve_dtype")   # (linsolve_sym_mixed rebuilds A0/Ai below)
        A0 = rng.standard_normal((n, n))
        A0 = (A0 @ A0.T + n * np.eye(n)) if sym else (A0 + 3 * n * np.eye(n))
        Ai = [rng.standard_normal((n, n)) * 0.3 for _ in range(k)]
        if sym:
            Ai = [0.5 * (a + a.T) for a in Ai]
        Mod = _matfun()
        designs = [rng.uniform(-1, 1, k) for _ in range(4)]
        if kind == "linsolve_sym_mixed":
            # symmetric matrices with a positive diagonal that are positive definite for some designs and indefinite for
            # others (Cholesky is chosen from the diagonal, fails, and the solver falls back to LDL)
            A0 = np.diag(rng.uniform(1.0, 2.0, n))
            Z = rng.standard_normal((n, n))
            Z = 0.5 * (Z + Z.T)
            np.fill_diagonal(Z, 0.0)
            Z /= np.max(np.abs(np.linalg.eigvalsh(Z)))
            Ai = [Z] + [np.zeros((n, n)) for _ in range(k - 1)]
            designs = []
            for j in range(4):
                cands = [0.2, 0.35, 0.5] if j % 2 == 0 else [3.0, 3.7, 4.5, 6.0]
                best = max(cands, key=lambda c: np.min(np.abs(np.linalg.eigvalsh(A0 + c * Z))))
                designs.append(np.array([best] + [0.0] * (k - 1)))
            sym = True
        x, A = S("x", designs[0].copy()), S("A")
        mods = [Mod(x, A, A0, Ai)]
        if kind == "linsolve_dtype":
            # the dtype of the system matrix depends on the design: real for designs 0 and 2, complex for 1 and 3
            for j, dsg in enumerate(designs):
                dsg[0] = -abs(dsg[0]) - 0.1 if j % 2 == 0 else abs(dsg[0]) + 0.1
            x.state = designs[0].copy()
            # general (neither symmetric nor Hermitian) matrices, real or complex: the symmetry flags that LinSolve and
            # its LDAWrapper detect at the first response (and keep, like the hermitian=/symmetric= options) stay true;
            # a real symmetric matrix turning complex would necessarily lose one of the two properties
            Cd = rng.standard_normal((n, n)) * 0.3
            mods = [_matfun_dtype()(x, A, A0, Ai, Cd)]
            labels.append("matrix_dtype_changes")
        if kind.startswith("linsolve"):
            b, u = S("b", rng.standard_normal((n, 2))), S("u")
            mods.append(pym.LinSolve([A, b], u))
            outs, srcs, t = [u], [x, b], 1e-5
        elif kind == "inverse":
            B = S("B")
            mods.append(pym.Inverse(A, B))
            outs, srcs, t = [B], [x], 1e-9
        else:
            lam, Q = S("lam"), S("Q")
            mods.append(pym.EigenSolve(A, [lam, Q]))
            outs, srcs, t = [lam, Q], [x], 1e-8
        return Net(pym.Network(mods), srcs, outs, designs, t, labels + [f"dense:{kind}"])
    if T == "T7":
        dom = pym.DomainDefinition(max(3, o["nx"]), max(3, o["ny"]))
        designs = [rng.uniform(0.2, 1.0, dom.nel) for _ in range(4)]
        x, xf, y = S("x", designs[0].copy()), S("xf"), S("y")
        mods = [_filterconv(pym, x, xf, dom, 1.3, o.get("fc_override", "none"), labels)]
        kw = {}
        if o["agg_opt"] == "active":
            # removes the int(0.12 n) lowest and highest entries (n >= 9): never empty, whatever the ties
            kw["active_set"] = pym.AggActiveSet(lower_amt=0.12, upper_amt=0.88)
        elif o["agg_opt"] == "undamped":
            kw["scaling"] = pym.AggScaling("max", damping=0.0)
        if o["agg"] == "pnorm":
            mods.append(pym.PNorm(xf, y, p=4.0, **kw))
        elif o["agg"] == "ks":
            mods.append(pym.KSFunction(xf, y, rho=4.0, **kw))
        else:
            mods.append(pym.SoftMinMax(xf, y, alpha=4.0, **kw))
        return Net(pym.Network(mods), [x], [y, xf], designs, 1e-9, labels + [f"agg:{o['agg']}:{o['agg_opt']}"])
    if T == "T8":
        # void/solid designs: element scalings that are *exactly* zero make stored matrix entries exactly zero, so dofs
        # get (de)coupled from one design to the next while the stored sparsity pattern stays the same
        dom = pym.DomainDefinition(max(3, o["nx"]), max(3, o["ny"]))
        nodes = np.asarray(dom.nodes).reshape(dom.nelx + 1, dom.nely + 1)
        bc = np.unique(np.concatenate([nodes[0, :], nodes[-1, :], nodes[:, 0], nodes[:, -1]]))
        if o["filter"] == "density":     # second boundary-condition layout: two opposite sides only
            bc = np.unique(np.concatenate([nodes[0, :], nodes[-1, :]]))
        n = dom.nnodes
        designs = []
        for _ in range(4):
            d = rng.choice(np.array([0.0, 0.0, 0.5, 1.0, 1.0]), size=dom.nel)
            tmp = pym.AssemblePoisson(S("t", d), S("tK"), dom, bc=bc, bcdiagval=1.0)
            tmp.response()
            Kd = tmp.sig_out[0].state.toarray()
            if not np.all(np.isfinite(Kd)) or np.linalg.cond(Kd) > 1e6 or not np.any(Kd - np.diag(np.diag(Kd))):
                # floating / unsupported material: not a solvable design. A design that leaves no coupling at all (K purely
                # diagonal) is replaced as well: LinSolve chooses its solver from the first matrix it sees and keeps it
                # (SolverDiagonal for a diagonal one), so the matrix class has to stay the same over a module's life
                # (DESIGN 7.3)
                d = np.ones(dom.nel)
            designs.append(d)
        x, K, u, c = S("x", designs[0].copy()), S("K"), S("u"), S("c")
        f0 = rng.standard_normal(n)
        f0[bc] = 0
        f = S("f", f0)
        mods = [pym.AssemblePoisson(x, K, dom, bc=bc, bcdiagval=1.0), pym.LinSolve([K, f], u),
                pym.EinSum([u, f], c, expression="i,i->")]
        if o["solver"] == "nolda":
            mods[1].use_lda_solver = False
        return Net(pym.Network(mods), [x], [c, u], designs, 1e-5, labels + ["void_solid_designs"])
    if T == "T9":
        # design -> AssembleGeneral with boundary conditions -> y = K v: an assembler whose input dtype widens over the
        # history (no solver involved, so the matrix class detection of LinSolve plays no role)
        dom = pym.DomainDefinition(max(2, o["nx"]), max(2, o["ny"]))
        mode = o.get("t9_dtypes", "float")
        nn = 4
        Ke = rng.integers(-3, 4, (nn, nn)) if mode == "int_then_float" else rng.standard_normal((nn, nn))
        Ke = Ke + Ke.T
        nodes = np.asarray(dom.nodes).reshape(dom.nelx + 1, dom.nely + 1)
        bc = np.unique(nodes[0, :])
        designs = [rng.uniform(0.2, 1.0, dom.nel) for _ in range(4)]
        if mode == "int_then_float":
            designs[0] = np.ones(dom.nel, dtype=int)
        elif mode == "real_complex":
            for j in (1, 3):
                designs[j] = designs[j] * np.exp(1j * rng.uniform(0.2, 1.0, dom.nel))
            labels.append("matrix_dtype_changes")
        x, K, y = S("x", designs[0].copy()), S("K"), S("y")
        v = rng.standard_normal(dom.nnodes)
        mods = [pym.AssembleGeneral(x, K, dom, element_matrix=Ke, bc=bc), _matvec()(K, y, v)]
        return Net(pym.Network(mods), [x], [y], designs, 1e-9, labels + [f"t9:{mode}"])
    raise ValueError(T)


_MATVEC = []


def _matvec():
    if _MATVEC:
        return _MATVEC[0]
    import pymoto as pym

    class C03MatVec(pym.Module):
        """y = K v for a fixed real vector v; adjoint with respect to the sparse matrix: the dyad dy v^T"""
        def _prepare(self, v):
            self.v = v

        def _response(self, K):
            return K @ self.v

        def _sensitivity(self, dy):
            return pym.DyadCarrier(np.array(dy), self.v.copy())
    _MATVEC.append(C03MatVec)
    return C03MatVec


_DYN = []


def _dynmat():
    if _DYN:
        return _DYN[0]
    import pymoto as pym

    class C03DynMat(pym.Module):
        """Z = (1 + 0.05j) K - 0.3 M   (as examples/topology_optimization/ex_dynamic_compliance.py)"""
        def _response(self, K, M):
            return K + 0.05j * K - 0.3 * M

        def _sensitivity(self, dZ):
            dZr, dZi = dZ.real, dZ.imag
            return dZr - 0.05 * dZi, (-0.3) * dZr
    _DYN.append(C03DynMat)
    return C03DynMat


_MATFUN = []


def _matfun():
    if _MATFUN:
        return _MATFUN[0]
    import pymoto as pym

    class C03MatFun(pym.Module):
        """A(x) = A0 + sum_i x_i A_i  (dense)"""
        def _prepare(self, A0, Ai):
            self.A0, self.Ai = A0, Ai

        def _response(self, x):
            return self.A0 + sum(xi * a for xi, a in zip(x, self.Ai))

        def _sensitivity(self, dA):
            return np.array([np.real(np.sum(dA * a)) for a in self.Ai])
    _MATFUN.append(C03MatFun)
    return C03MatFun


_MATFUNC = []


def _matfun_dtype():
    if _MATFUNC:
        return _MATFUNC[0]
    import pymoto as pym

    class C03MatFunDtype(pym.Module):
        """A(x) = A0 + sum_i x_i A_i + 1j max(x_0, 0) C: a REAL array for x_0 <= 0 (undamped), a complex one for x_0 > 0"""
        def _prepare(self, A0, Ai, C):
            self.A0, self.Ai, self.C = A0, Ai, C

        def _response(self, x):
            A = self.A0 + sum(xi * a for xi, a in zip(x, self.Ai))
            self.damped = bool(x[0] > 0)
            return A + 1j * x[0] * self.C if self.damped else A

        def _sensitivity(self, dA):
            g = np.array([np.real(np.sum(dA * a)) for a in self.Ai])
            if self.damped:
                g[0] += np.real(np.sum(dA * 1j * self.C))
            return g
    _MATFUNC.append(C03MatFunDtype)
    return C03MatFunDtype


def seed_value(case, net, j, w):
    """Deterministic seed number w for output j (shape/dtype class of the current output state)."""
    out = net.outputs[j % len(net.outputs)]
    y = out.state
    r = np.random.default_rng([case["payload_seed"], j % len(net.outputs), w])
    yd = np.asarray(adj.to_dense(y))
    v = r.standard_normal(yd.shape)
    if np.iscomplexobj(yd):
        v = v + 1j * r.standard_normal(yd.shape)
    if yd.ndim == 0:
        v = complex(v) if np.iscomplexobj(yd) else float(v)
    return out, v


def dense(a):
    d = adj.to_dense(a)
    return None if d is None else np.array(d, copy=True)


def close(a, b, tol):
    if a is None and b is None:
        return True, 0.0
    if a is None or b is None:
        z = a if b is None else b
        return (not np.any(z != 0)), float(np.max(np.abs(z), initial=0.0))
    a, b = np.asarray(a), np.asarray(b)
    if a.shape != b.shape:
        return False, float("inf")
    s = max(np.max(np.abs(a), initial=0.0), np.max(np.abs(b), initial=0.0))
    if s == 0:
        return True, 0.0
    r = float(np.max(np.abs(a - b), initial=0.0) / s)
    return r <= tol, r


def eig_well_separated(net):
    """T2 only: eigenvector sensitivities are defined (and comparable) only for simple, separated eigenvalues."""
    if not hasattr(net, "eig"):
        return True
    K, M, lam, k = net.eig
    import scipy.linalg as sl
    Kd = K.state.toarray()
    Md = np.eye(Kd.shape[0]) if M is None else M.state.toarray()
    w = np.sort(sl.eigh(Kd, Md, eigvals_only=True))
    got = np.sort(np.real(np.asarray(lam.state)))
    # gaps between each returned eigenvalue and every other eigenvalue of the pencil
    spread = max(np.abs(w).max(), 1e-300)
    for v in got:
        d = np.sort(np.abs(w - v))
        if len(d) > 1 and d[1] < 2e-2 * spread:
            return False
    return True


def is_singular_Z(e):
    fns = [f.name for f in traceback.extract_tb(e.__traceback__)]
    return "_sparse_eigvec_sens" in fns and "update" in fns and "singular" in str(e).lower()


def check_case(case):
    labels, V = [], []

    def bad(kind, detail, **kw):
        V.append(viol(f"C03:{kind}", f"{detail} | case={case}", **kw))

    def guarded(fn, what):
        try:
            fn()
            return True
        except Exception as e:
            if from_pymoto(e):
                if is_singular_Z(e):
                    bad("raises:sensitivity:EigenSolve:singular_shifted_matrix", traceback.format_exc()[-600:],
                        sig={"singular_factorisation": True, "via": "_sparse_eigvec_sens/update"})
                else:
                    bad(f"raises:{what}:{case['template']}:{type(e).__name__}@{exc_site(e)}",
                        traceback.format_exc()[-600:])
                return False
            raise

    try:
        used = build(case)
    except Exception as e:
        if from_pymoto(e):
            bad(f"raises:construct:{case['template']}:{type(e).__name__}@{exc_site(e)}", traceback.format_exc()[-600:])
            return labels, V
        raise
    labels += used.labels
    sigs = used.all_signals()
    tol = used.tol
    nout = len(used.outputs)

    def fresh_eval(k, seeds):
        """Freshly constructed identical network, evaluated once on design k with the given {output index: (j, w)}."""
        net = build(case)
        net.sources[0].state = net.designs[k].copy()
        if not guarded(net.net.response, "response"):
            return None
        for jo, (j, w) in seeds.items():
            out, v = seed_value(case, net, j, w)
            out.sensitivity = v
        if not guarded(net.net.sensitivity, "sensitivity"):
            return None
        sg = net.all_signals()
        return ([dense(s.state) for s in sg], [dense(s.sensitivity) for s in net.sources], [s.tag for s in sg])

    def compare_with_fresh(k, seeds, where):
        """Compare the used network (just after sensitivity()) with a fresh evaluation."""
        if hasattr(used, "eig") and any(jo < used.eig[3] for jo in seeds) and not eig_well_separated(used):
            labels.append("eig_close_skipped")
            return True
        ref = fresh_eval(k, seeds)
        if ref is None:
            return False
        st_f, se_f, tags = ref
        st_u = [dense(s.state) for s in sigs]
        se_u = [dense(s.sensitivity) for s in used.sources]
        for tg, a, b in zip(tags, st_u, st_f):
            ok, r = close(a, b, tol)
            if not ok:
                bad(f"state_differs:{case['template']}:{tg}", f"{where}: state of '{tg}' differs from the fresh network "
                                                               f"(rel {r:.3e})")
                return False
        for i, (a, b) in enumerate(zip(se_u, se_f)):
            ok, r = close(a, b, tol)
            if not ok:
                bad(f"sensitivity_differs:{case['template']}:src{i}", f"{where}: source sensitivity {i} differs from the "
                                                                     f"fresh network (rel {r:.3e})")
                return False
        return True

    cur_k = 0
    responded = False        # a response happened since the last input change
    clean = True             # no sensitivity()/partial reset since the last full reset (or construction)
    seeds = {}               # seeds set since the last full reset: output index -> (j, w)
    designs_seen = set()
    ncompared = 0
    ops = list(case["ops"])
    # final cycle: reset -> set final design -> response -> seeds -> sensitivity (compared like any other)
    fk = case["opts"]["final_k"]
    ops += [{"op": "reset"}, {"op": "set", "k": fk, "mode": case["opts"].get("final_mode", "rebind")}, {"op": "response"}]
    ops += [{"op": "seed", "j": j, "w": 7 + jj} for jj, j in enumerate(case["opts"]["final_seeds"])]
    ops += [{"op": "sens", "final": True}]
    for op in ops:
        t = op["op"]
        if t == "set":
            if "matrix_dtype_changes" in labels:
                # accumulating the (complex) sensitivities of a complex design onto the (real) ones left from a real design
                # without a reset is not a meaningful history (numpy refuses the in-place cast): reset before the dtype
                # of the matrix can change
                if not guarded(used.net.reset, "reset"):
                    return labels, V
                clean, seeds = True, {}
            cur_k = op["k"]
            cur = used.sources[0].state
            new = used.designs[cur_k]
            if op.get("mode", "rebind") == "inplace" and isinstance(cur, np.ndarray) and cur.shape == np.shape(new) \
                    and cur.dtype == np.asarray(new).dtype:
                cur[...] = new          # the design array is updated in place (same object, new values)
                labels.append("set_inplace")
            else:
                used.sources[0].state = new.copy()
            responded = False
        elif t == "response":
            if not guarded(used.net.response, "response"):
                return labels, V
            responded = True
            designs_seen.add(cur_k)
        elif t == "seed":
            if responded:
                out, v = seed_value(case, used, op["j"], op["w"])
                out.sensitivity = v
                seeds[op["j"] % nout] = (op["j"], op["w"])
        elif t in ("sens", "sens2"):
            if responded:
                any_seed = any(s.sensitivity is not None for s in sigs)
                before = [adj.snapshot(s.sensitivity) for s in sigs] if not any_seed else None
                if not guarded(used.net.sensitivity, "sensitivity"):
                    return labels, V
                if not op.get("final"):
                    labels.append("sens_in_prefix")
                if before is not None and [adj.snapshot(s.sensitivity) for s in sigs] != before:
                    bad("sensitivity_without_seed_changed_something", "a sensitivity appeared without any seed")
                    return labels, V
                # a sensitivity pass that directly follows a full reset (seeds set after it) must equal a fresh network
                if clean and seeds and (op.get("final") or ncompared < 6):
                    ncompared += 1
                    labels.append("compared_final" if op.get("final") else "compared_mid_history")
                    if not compare_with_fresh(cur_k, dict(seeds), "final cycle" if op.get("final") else
                                              "sensitivity pass after reset (no new response)" ):
                        return labels, V
                clean = False
                if t == "sens2":
                    if not guarded(used.net.sensitivity, "sensitivity"):
                        return labels, V
        elif t == "reset":
            if not guarded(used.net.reset, "reset"):
                return labels, V
            left = [s.tag for s in sigs if s.sensitivity is not None and np.any(adj.to_dense(s.sensitivity) != 0)]
            if left:
                bad("reset_leaves_sensitivity", f"signals {left} keep a sensitivity after Network.reset()")
                return labels, V
            clean, seeds = True, {}
        elif t == "reset_mod":
            mods = used.net.mods
            if not guarded(mods[op["i"] % len(mods)].reset, "reset"):
                return labels, V
            clean = False
        if len(designs_seen) >= 2 and "two_designs" not in labels and not op.get("final"):
            labels.append("two_designs")
    return labels, V
