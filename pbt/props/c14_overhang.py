"""C14 — the overhang filter prints layer by layer in the requested direction (forward result of OverhangFilter)."""
import math
import sys
import traceback
import numpy as np
from hypothesis import strategies as st
from pbt.harness import viol
from pbt.common import make_domain, SEED

PROPERTY_ID = "C14"
RULE = ("case = domain (2D/3D, 1..6 per axis quick, one-layer and one-column domains included) + print axis and sign "
        "(all 4/6 directions) given both as a vector (2 or 3 components, any positive length, list/tuple/array/int "
        "entries) and as a string ('+x', 'x+', '-y', 'y-', upper case, bare axis letter) + nsampling (default, 3, 5, 9 "
        "as admissible) + xi_0 in (0.05,0.95) or the documented end point 0, p in [5,80] with Q = p + ln(ns)/ln(xi_0) >= 1, eps in [1e-8,1e-2] or the documented end point 0 (int or float) (or "
        "all defaults) + a field kind in [0,1] (random, 0/1 plateaus, solid/void boxes, all solid, solid above a void layer, columns) "
        "from default_rng(payload_seed) + a mirror axis and an axis pair for the metamorphic relations. Oracle: own "
        "element-by-element loops of Langelaar's scheme in (i,j,k) coordinates. Non-trivial = at least 2 layers in "
        "print direction and an element with x >= 0.9 whose supports all print <= 0.1 (unsupported solid). "
        "Distinct = sha1 of the canonical case.")
ASSUMPTIONS = [
    "only axis-aligned directions (documented restriction); z directions only for 3D domains",
    "smooth max/min as documented in the code and Langelaar (2017): smax = (sum (y_s+shift)^p)^(1/Q) - backshift with "
    "shift = 100*tiny^(1/p), backshift = 0.95*ns^(1/Q)*shift^(p/Q) (the code's documented regularisation), supports "
    "outside the domain contribute nothing; smin(x,s) = (x + s - sqrt((x-s)^2+eps) + sqrt(eps))/2",
    "support stencils: 2D the 3 elements |du|<=1 of the previous layer; 3D nsampling 5 = |du|+|dv|<=1, 9 = max(|du|,|dv|)<=1",
    "float64 fields with values in [0,1]; parameters with Q >= 1",
    "element numbering e = (k*nely + j)*nelx + i (documented by get_elemnumber, verified by C13)",
]

AXN = "xyz"
TOL0 = 1e-12   # observed differences <= 5e-16 (reference and metamorphic) over 600 thorough cases


def _exc(e):
    fr = traceback.extract_tb(e.__traceback__)[-1]
    return f"{type(e).__name__}: {e} (at {fr.filename.split('/pymoto/')[-1]}:{fr.lineno} in {fr.name})"


def budget(tier):
    return {"examples": 6000 if tier == "quick" else 60000, "shards": 16, "shrink": 300 if tier == "quick" else 1500}


def strategy(tier):
    @st.composite
    def case(draw):
        dim = draw(st.sampled_from([2, 3]))
        m = (6 if dim == 2 else 5) if tier == "quick" else (9 if dim == 2 else 6)
        size = st.one_of(st.integers(2, m), st.integers(1, m), st.integers(3, m))
        unit = st.sampled_from([1.0, 0.5, 2.0, 0.37])
        nel = [draw(size), draw(size), draw(size) if dim == 3 else 0]
        dom = {"nel": nel, "unit": [draw(unit), draw(unit), draw(unit)]}
        axis = draw(st.sampled_from(list(range(dim))))
        sign = draw(st.sampled_from([1, -1]))
        c = {"dom": dom, "axis": axis, "sign": sign, "payload_seed": draw(SEED)}
        c["vec"] = {"len": draw(st.sampled_from([2, 3])) if dim == 2 else 3,
                    "scale": draw(st.sampled_from([1.0, 1, 2.5, 0.3, 7])),
                    "as": draw(st.sampled_from(["list", "tuple", "array"]))}
        forms = ["{s}{a}", "{a}{s}", "{s}{A}", "{A}{s}"]
        if sign > 0:
            forms += ["{a}", "{A}"]
        c["str"] = draw(st.sampled_from(forms))
        ns_opts = [None, 3] if dim == 2 else [None, 5, 9]
        ns = draw(st.sampled_from(ns_opts))
        c["nsampling"] = ns
        nse = ns if ns is not None else (3 if dim == 2 else 5)
        if draw(st.integers(0, 4)) == 0:
            c["params"] = None                       # all defaults: xi_0 = 0.5, p = 40, eps = 1e-4
        else:
            # xi_0 = 0 is the closed end of the documented range 0 <= xi_0 <= 1 (then Q = p)
            xi0 = draw(st.one_of(st.sampled_from([0.5, 0.1, 0.9, 0, 0.0]),
                                 st.floats(0.06, 0.94, allow_nan=False).map(lambda v: round(v, 3))))
            pmin = max(5.0, 1.0 - (math.log(nse) / math.log(xi0) if xi0 > 0 else 0.0) + 1e-6)
            pmin = math.ceil(pmin * 100) / 100
            p = draw(st.one_of(st.floats(pmin, 80.0, allow_nan=False).map(lambda v: round(v, 2)),
                               st.integers(math.ceil(pmin), 80)))
            p = max(p, pmin)
            eps = draw(st.sampled_from([1e-8, 1e-6, 1e-4, 1e-3, 1e-2, 0, 0.0]))   # documented: eps >= 0
            c["params"] = {"xi_0": xi0, "p": p, "eps": eps}
        c["field"] = draw(st.sampled_from(["plateau", "plateau", "blocks", "blocks", "blocks", "rand", "solid",
                                             "void_layer", "void_layer", "columns", "columns"]))
        c["mirror"] = draw(st.sampled_from(list(range(dim))))
        a = draw(st.sampled_from(list(range(dim))))
        b = draw(st.sampled_from(list(range(dim - 1))))
        c["swap"] = [a, b if b < a else b + 1]
        return c
    return case()


def nontrivial(labels):
    return "layers_ge2" in labels and "unsupported_solid" in labels


# ----------------------------------------------------------------------------------------------------------------
def _to3(x, n):
    nx, ny, nz = n
    X = np.empty((nx, ny, nz))
    for k in range(nz):
        for j in range(ny):
            for i in range(nx):
                X[i, j, k] = x[(k * ny + j) * nx + i]
    return X


def _to_flat(Y):
    nx, ny, nz = Y.shape
    y = np.empty(nx * ny * nz)
    for k in range(nz):
        for j in range(ny):
            for i in range(nx):
                y[(k * ny + j) * nx + i] = Y[i, j, k]
    return y


def _plant_overhang(X, n, axis, sign, rng):
    """make one solid element sit on a void 3x3 patch of the previous layer (guarantees an unsupported solid)"""
    if n[axis] < 2:
        return X
    me = [int(rng.integers(0, n[t])) for t in range(3)]
    me[axis] = int(rng.integers(1, n[axis])) if sign > 0 else int(rng.integers(0, n[axis] - 1))
    sl = [slice(max(0, me[t] - 1), me[t] + 2) for t in range(3)]
    sl[axis] = me[axis] - sign
    X[tuple(sl)] = 0.0
    X[tuple(me)] = 1.0
    return X


def _field(kind, n, axis, sign, rng):
    X = rng.random(tuple(n))
    if kind == "rand":
        return X
    if kind == "solid":
        return np.ones(tuple(n))
    if kind == "plateau":
        u = rng.random(tuple(n))
        X[u < 0.4] = 0.0
        X[u > 0.6] = 1.0
        return _plant_overhang(X, n, axis, sign, rng) if rng.random() < 0.6 else X
    if kind == "blocks":      # random background with a few solid / void boxes
        u = rng.random(tuple(n))
        X[u < 0.3] = 0.0
        X[u > 0.7] = 1.0
        for b in range(int(rng.integers(1, 4))):
            sl = []
            for t in range(3):
                lo = int(rng.integers(0, n[t]))
                hi = int(rng.integers(lo, n[t])) + 1
                sl.append(slice(lo, hi))
            X[tuple(sl)] = float(b % 2)
        return _plant_overhang(X, n, axis, sign, rng) if rng.random() < 0.6 else X
    if kind == "void_layer":
        X = np.ones(tuple(n))
        L = int(rng.integers(0, n[axis]))
        sl = [slice(None)] * 3
        sl[axis] = L
        X[tuple(sl)] = 0.0
        return X
    # columns: solid columns along the print axis on a void background, plus a solid cap layer
    X = np.zeros(tuple(n))
    mask_shape = [n[t] if t != axis else 1 for t in range(3)]
    cols = rng.random(mask_shape) < 0.35
    X = X + cols
    if n[axis] > 1:
        L = int(rng.integers(1, n[axis]))
        sl = [slice(None)] * 3
        sl[axis] = L
        X[tuple(sl)] = 1.0
    return np.minimum(X, 1.0)


def _stencil(dim, ns):
    if dim == 2:
        return [(-1, 0), (0, 0), (1, 0)]        # (offset along the in-plane orthogonal axis, nothing along z)
    out = []
    for du in (-1, 0, 1):
        for dv in (-1, 0, 1):
            if ns == 9 or abs(du) + abs(dv) <= 1:
                out.append((du, dv))
    return out


def _reference(X, dim, axis, sign, ns, xi0, p, eps):
    """Langelaar's overhang scheme, element by element in (i,j,k) coordinates. Returns (Y, supports-of-each-element)."""
    n = X.shape
    q = p + (math.log(ns) / math.log(xi0) if xi0 > 0 else 0.0)
    shift = 100.0 * sys.float_info.min ** (1.0 / p)
    backshift = 0.95 * ns ** (1.0 / q) * shift ** (p / q)
    others = [t for t in range(3) if t != axis]
    if dim == 2:
        others = [t for t in others if t != 2] + [2]     # in-plane orthogonal axis first, the dummy z axis last
    sten = _stencil(dim, ns)
    Y = X.copy()
    supp = {}
    layers = list(range(n[axis])) if sign > 0 else list(range(n[axis] - 1, -1, -1))
    for L in layers[1:]:
        prev = L - sign
        for u in range(n[others[0]]):
            for v in range(n[others[1]]):
                me = [0, 0, 0]
                me[axis], me[others[0]], me[others[1]] = L, u, v
                keep = 0.0
                lst = []
                for du, dv in sten:
                    uu, vv = u + du, v + dv
                    if 0 <= uu < n[others[0]] and 0 <= vv < n[others[1]]:
                        s = [0, 0, 0]
                        s[axis], s[others[0]], s[others[1]] = prev, uu, vv
                        keep += (Y[tuple(s)] + shift) ** p
                        lst.append(tuple(s))
                smax = keep ** (1.0 / q) - backshift
                xi = X[tuple(me)]
                Y[tuple(me)] = (xi + smax - math.sqrt((xi - smax) ** 2 + eps) + math.sqrt(eps)) / 2
                supp[tuple(me)] = lst
    return Y, supp, (q, shift, backshift)


def _vector(case, axis, sign, dim):
    v = case["vec"]
    ln = v["len"] if dim == 2 else 3
    d = [0] * ln if isinstance(v["scale"], int) else [0.0] * ln
    d[axis] = sign * v["scale"]
    if v["as"] == "tuple":
        return tuple(d)
    if v["as"] == "array":
        return np.array(d)
    return d


def _string(case, axis, sign):
    return case["str"].format(s="+" if sign > 0 else "-", a=AXN[axis], A=AXN[axis].upper())


def _run(pym, domain, x, direction, case):
    kw = {}
    if case["nsampling"] is not None:
        kw["nsampling"] = case["nsampling"]
    if case["params"] is not None:
        kw.update(case["params"])
    m = pym.OverhangFilter(pym.Signal("x", state=x.copy()), domain=domain, direction=direction, **kw)
    m.response()
    return m, np.asarray(m.sig_out[0].state).copy()


# ----------------------------------------------------------------------------------------------------------------
def check_case(case):
    import pymoto as pym
    V = []
    dom = case["dom"]
    nel = dom["nel"]
    dim = 2 if nel[2] == 0 else 3
    n = [nel[0], nel[1], max(nel[2], 1)]
    axis, sign = case["axis"], case["sign"]
    ns = case["nsampling"] if case["nsampling"] is not None else (3 if dim == 2 else 5)
    par = case["params"] or {"xi_0": 0.5, "p": 40.0, "eps": 1e-4}
    xi0, p, eps = par["xi_0"], par["p"], par["eps"]
    labels = [f"dim{dim}", f"ns{ns}", "dir_" + ("+" if sign > 0 else "-") + AXN[axis], "field_" + case["field"],
              "params_default" if case["params"] is None else "params_drawn", "str_" + case["str"]]
    if eps == 0:
        labels.append("eps_zero")
    if xi0 == 0:
        labels.append("xi0_zero")
    if n[axis] >= 2:
        labels.append("layers_ge2")
    else:
        labels.append("one_layer")
    if any(n[t] == 1 for t in range(dim) if t != axis):
        labels.append("one_column")

    def bad(bucket, detail):
        V.append(viol(f"C14:{bucket}", f"{detail} | case={ {k: v for k, v in case.items() if k != 'payload_seed'} }"))

    rng = np.random.default_rng(case["payload_seed"])
    X = _field(case["field"], n, axis, sign, rng)
    x = _to_flat(X)
    Yref, supp, (q, shift, backshift) = _reference(X, dim, axis, sign, ns, xi0, p, eps)
    yref = _to_flat(Yref)
    if any(X[me] >= 0.9 and max(Yref[s] for s in lst) <= 0.1 for me, lst in supp.items()):
        labels.append("unsupported_solid")
    domain = make_domain(dom)
    expected_dir = np.zeros(3)
    expected_dir[axis] = float(sign)

    # ---- vector form ---------------------------------------------------------------------------------------------
    vec = _vector(case, axis, sign, dim)
    try:
        mv, yv = _run(pym, domain, x, vec, case)
        dv = np.asarray(mv.direction, dtype=float)
    except Exception as e:
        bad(f"raises:forward:{type(e).__name__}", f"direction={vec!r}: " + _exc(e))
        return labels, V
    vec_ok = dv.shape == (3,) and np.array_equal(dv, expected_dir)
    if not vec_ok:
        bad("direction:vector", f"direction={vec!r} gives attribute {dv!r}, expected {expected_dir!r}")
    if yv.shape != x.shape:
        bad("value:shape", f"output shape {yv.shape}")
        return labels, V

    # Conditioning: each layer maps a perturbation d of its supports to about (p/q) d (smooth maximum (sum x^p)^(1/q)
    # followed by the minimum), so a one-ulp difference in the first layer is amplified by (p/q)^(layers-1). For the
    # default parameters p/q = 1.06; for drawn ones (xi_0 near 1, small p) it reaches 10 and more, and two correct
    # evaluations then differ by far more than 1e-12 (seen: 1.75e-12 for p/q = 9.3 over 6 layers, growing by 9.3 per
    # layer). The tolerance follows that bound; cases where it would exceed 1e-7 make no value claim.
    amp = max(1.0, abs(p / q)) ** max(0, n[axis] - 1)
    TOL = max(TOL0, 64 * 2.220446049250313e-16 * amp)
    if amp > 1e3:
        labels.append("ill_conditioned_chain")
    if TOL > 1e-7:
        labels.append("value_not_claimed")       # (bounds, layer facts and direction handling are still judged)
        TOL = float("inf")
    # (a) reference
    err = float(np.max(np.abs(yv - yref)))
    value_ok = err <= TOL
    if vec_ok and not value_ok:
        e = int(np.argmax(np.abs(yv - yref)))
        bad("value:" + ("2d" if dim == 2 else f"3d_ns{ns}"),
            f"element {e}: y={yv[e]!r} reference={yref[e]!r} (max err {err:.3e}) direction={vec!r}")
    # (b) bounds and layer facts, on the code's own output (independent of the reference values)
    if vec_ok:
        Yv = _to3(yv, n)
        over = float(np.max(yv - x))
        if over > math.sqrt(eps) / 2 * (1 + 1e-9) + 1e-14:      # 1e-14: rounding of (x + s - |x - s|)/2 when eps = 0
            bad("bound:overshoot", f"max(y-x) = {over!r} > sqrt(eps)/2 = {math.sqrt(eps) / 2!r}")
        sl = [slice(None)] * 3
        sl[axis] = 0 if sign > 0 else n[axis] - 1
        if not np.array_equal(Yv[tuple(sl)], X[tuple(sl)]):
            bad("base_layer", f"base layer (index {sl[axis]} along {AXN[axis]}) changed by "
                              f"{np.max(np.abs(Yv[tuple(sl)] - X[tuple(sl)])):.3e}")
        ub_void = math.sqrt(eps) / 2 + 0.05 * ns ** (1.0 / q) * shift ** (p / q) * (1 + 1e-9) + 1e-13
        for me, lst in supp.items():
            sv = [Yv[s] for s in lst]
            if X[me] == 1.0 and min(sv) >= 1.0 and Yv[me] < 1.0 - 1e-6:
                bad("solid_stays", f"element {me}: x=1, all supports printed >= 1 ({sv}), y={Yv[me]!r}")
                break
            if max(sv) == 0.0 and Yv[me] > ub_void:
                bad("unsupported_removed", f"element {me}: all supports are void, x={X[me]!r}, y={Yv[me]!r} > {ub_void!r}")
                break
        if case["field"] == "solid" and float(yv.min()) < 1.0 - 1e-6:
            bad("solid_stays", f"all-solid field printed with min {yv.min()!r}")

    # ---- (c) string form -------------------------------------------------------------------------------------------
    sdir = _string(case, axis, sign)
    try:
        ms, ys = _run(pym, domain, x, sdir, case)
        ds = np.asarray(ms.direction, dtype=float)
    except Exception as e:
        bad(f"raises:string:{type(e).__name__}", f"direction={sdir!r}: " + _exc(e))
        ms = None
    if ms is not None:
        if ds.shape != (3,) or not np.array_equal(ds, expected_dir):
            same_axis = ds.shape == (3,) and np.array_equal(np.abs(ds), np.abs(expected_dir))
            bad("direction:string_sign" if same_axis else "direction:string_axis",
                f"direction={sdir!r} gives attribute {ds!r}, expected {expected_dir!r} (vector form {vec!r} gives {dv!r})")
        elif vec_ok and not np.array_equal(ys, yv, equal_nan=True):
            bad("string_vs_vector:output", f"direction {sdir!r} and {vec!r}: same attribute, outputs differ by "
                                           f"{np.max(np.abs(ys - yv)):.3e}")

    # ---- (d) metamorphic relations (vector form only) ----------------------------------------------------------------
    if vec_ok:
        ma = case["mirror"]
        Xm = np.flip(X, axis=ma)
        sgn_m = -sign if ma == axis else sign
        try:
            _, ym = _run(pym, domain, _to_flat(Xm), _vector(case, axis, sgn_m, dim), case)
        except Exception as e:
            bad(f"raises:forward:{type(e).__name__}", _exc(e))
            ym = None
        if ym is not None:
            labels.append("mirror_print_axis" if ma == axis else "mirror_inplane")
            em = float(np.max(np.abs(np.flip(_to3(ym, n), axis=ma) - Yv)))
            if not em <= TOL:
                bad("metamorphic:mirror", f"mirroring axis {AXN[ma]} (direction sign {sign}->{sgn_m}): outputs differ by {em:.3e}")
        a, b = case["swap"]
        Xs = np.swapaxes(X, a, b)
        ns_ = list(Xs.shape)
        ax_s = b if axis == a else (a if axis == b else axis)
        d2 = dict(dom)
        unit = list(dom["unit"])
        unit[a], unit[b] = unit[b], unit[a]
        d2 = {"nel": [ns_[0], ns_[1], ns_[2] if dim == 3 else 0], "unit": unit}
        try:
            _, ysw = _run(pym, make_domain(d2), _to_flat(Xs), _vector(case, ax_s, sign, dim), case)
        except Exception as e:
            bad(f"raises:forward:{type(e).__name__}", _exc(e))
            ysw = None
        if ysw is not None:
            labels.append("swap_print_axis" if axis in (a, b) else "swap_inplane")
            es = float(np.max(np.abs(np.swapaxes(_to3(ysw, ns_), a, b) - Yv)))
            if not es <= TOL:
                bad("metamorphic:swap", f"swapping axes {AXN[a]}{AXN[b]} (print axis {AXN[axis]}->{AXN[ax_s]}): "
                                        f"outputs differ by {es:.3e}")

    # ---- (e) the same module evaluated again (a filter is called once per design iteration): the second and third
    # response() on one instance - first with the same field, then with another one - must give what a freshly built
    # filter gives for that field (both forms of the direction). Nothing the first call prepared may be used up.
    if vec_ok and value_ok:
        rng2 = np.random.default_rng(case["payload_seed"] + 1)
        x2 = _to_flat(_field(case["field"], n, axis, sign, rng2))
        for form, mod, y1, dirn in (("vector", mv, yv, vec), ("string", ms, ys if ms is not None else None, sdir)):
            if mod is None or (form == "string" and V):
                continue
            try:
                mod.response()
                y_again = np.asarray(mod.sig_out[0].state).copy()
                mod.sig_in[0].state = x2.copy()
                mod.response()
                y_new = np.asarray(mod.sig_out[0].state).copy()
                _, y_fresh = _run(pym, domain, x2, dirn, case)
            except Exception as e:
                bad(f"raises:re-evaluation:{type(e).__name__}", f"direction={dirn!r}: " + _exc(e))
                continue
            labels.append("re-evaluated")
            if y_again.shape != y1.shape or not float(np.max(np.abs(y_again - y1))) <= TOL:
                bad("re-evaluation:same_input", f"second response() of one {form}-direction filter ({dirn!r}) on the "
                    f"same field differs from the first by {np.max(np.abs(y_again - y1)):.3e}")
            elif y_new.shape != y_fresh.shape or not float(np.max(np.abs(y_new - y_fresh))) <= TOL:
                bad("re-evaluation:new_input", f"third response() of one {form}-direction filter ({dirn!r}) on a new "
                    f"field differs from a fresh filter by {np.max(np.abs(y_new - y_fresh)):.3e}")
    return labels, V
