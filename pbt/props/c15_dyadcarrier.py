"""C15 — DyadCarrier behaves exactly like the dense matrix it represents.

A case is a straight-line *program*: a list of op dicts interpreted against a pool of values. Every value exists twice,
as the real ``pymoto.DyadCarrier`` and as a dense numpy model (``None`` models the shapeless empty carrier, i.e. the
"zero matrix of undetermined shape" that ``DyadCarrier()`` stands for). After every step every live value is compared
with its model (shape, values, dtype class), return values of contract/diagonal/dot/getitem are compared in value and
shape, operands are compared bit-wise with snapshots, and an epilogue zeroes one row of every value in turn to expose
storage shared between values.
"""
import traceback
import numpy as np
import scipy.sparse as sp
from hypothesis import strategies as st
from pbt.harness import viol

PROPERTY_ID = "C15"
RULE = ("case = 3 candidate dimensions, 1-3 constructor specs and a program of <= 12 op dicts (constructors incl. empty/"
        "shapeless/blocks/scalars/zero vectors, + - with dyads/dense/0, += -=, add_dyad, scalar * from both sides, @ and "
        "dot with dense/sparse/vector/dyad operands from both sides, T/transpose/conj/real/imag/copy/+x/-x, diagonal, "
        "getitem, setitem-zeroing, contract in all documented variants, contract_multi); operand indices are taken modulo "
        "the pool, numbers come from default_rng([payload_seed, op seed]). Non-trivial = >= 3 executed operations of >= 2 "
        "kinds and a real/complex mixture or an empty carrier involved. Distinct = sha1 of the canonical case JSON.")
# coverage-guided engine (pbt/fuzz.py): executions per process in each tier (16 processes)
FUZZ = {"quick": 0, "thorough": 6000, "instrument": "pymoto.common.dyadcarrier"}
ASSUMPTIONS = [
    "vectors, operands and scalars are float64/complex128 (python int/float/complex scalars included); integer-typed "
    "vectors are outside the quantifier (real/complex mixtures) and are not generated",
    "documented refusals are not generated: adding a non-zero scalar, setting non-zero values, partial-slice assignment, "
    "index arrays of different shapes, python lists as indices, non-conforming shapes, complex `fac` in add_dyad",
    "the shapeless empty carrier DyadCarrier() is modelled as a zero matrix of undetermined shape: only + - += -= with "
    "dyads/0, unary ops, scalar *, contract() and diagonal() are applied to it; shapeless +/- (an empty carrier with a "
    "shape) may stay shapeless",
    "contract_multi is exercised with lists of sparse matrices of one dtype class (its result dtype is taken from "
    "mats[0])",
    "`x += x` / `x -= x` on the same object are executed with a bounded list guard on x.u (the unchanged code appends to "
    "the list it iterates over); every other call uses the objects as they are",
    "the value assigned by __setitem__ is a real zero (python/numpy); a complex zero cannot be assigned to a real dense "
    "matrix either",
    "thorough tier additionally drives the same strategy/check through atheris (libFuzzer) via pbt/fuzz.py; quick tier is Hypothesis only",
]

MAX_DYADS = 40
TOL = 1e-12
_FAIL = object()


def budget(tier):
    return {"examples": 12000 if tier == "quick" else 120000, "shards": 16, "shrink": 200 if tier == "quick" else 600}


# ---------------------------------------------------------------------------------------------------------------------
# strategy
def strategy(tier):
    big = tier != "quick"
    dim = st.integers(1, 7 if big else 5)
    seed16 = st.integers(0, 2 ** 16 - 1)
    ref = st.integers(0, 15)
    # "w": a non-zero complex vector whose UNconjugated self-product sum(x_i^2) is exactly zero (pairs (a, i a):
    # whirling / circularly polarised shapes) -- its norm is not zero
    vk = st.sampled_from(["r", "r", "r", "c", "c", "z", "q", "i", "cr", "zc", "w"])
    sl_b = st.one_of(st.none(), st.integers(-8, 8))
    idx = st.one_of(
        st.fixed_dictionaries({"t": st.just("int"), "i": st.integers(-8, 7), "np": st.booleans()}),
        st.fixed_dictionaries({"t": st.just("slice"), "a": sl_b, "b": sl_b,
                               "c": st.sampled_from([None, None, 1, 2, 3, -1, -2])}),
        st.fixed_dictionaries({"t": st.just("arr"), "i": st.lists(st.integers(-8, 7), max_size=5),
                               "two": st.booleans()}),
        st.just({"t": "slice", "a": None, "b": None, "c": None}))
    idx_set = st.one_of(
        st.fixed_dictionaries({"t": st.just("int"), "i": st.integers(-8, 7), "np": st.booleans()}),
        st.fixed_dictionaries({"t": st.just("slice"), "a": sl_b, "b": sl_b,
                               "c": st.sampled_from([None, None, 1, 2, 3, -1, -2])}),
        st.fixed_dictionaries({"t": st.just("arr"), "i": st.lists(st.integers(-8, 7), max_size=5),
                               "two": st.booleans()}))
    cplx = st.booleans()

    def op(name, **kw):
        return st.fixed_dictionaries(dict({"op": st.just(name), "s": seed16}, **kw))

    new = op("new", kind=st.sampled_from(["list", "list", "list", "single", "sym", "block", "scalars", "scalar1", "pylist",
                                          "empty", "empty_shape", "empty_shape", "empty_shape0"]),
             sh=st.lists(st.integers(0, 2), min_size=2, max_size=2), uk=st.lists(vk, min_size=1, max_size=3),
             vk=st.lists(vk, min_size=1, max_size=3), lead=st.lists(st.integers(1, 3), min_size=1, max_size=2),
             gs=st.booleans())
    addsub = op("addsub", a=ref, b=ref, sub=st.booleans(), side=st.sampled_from(["l", "r"]),
                other=st.sampled_from(["dyad", "dyad", "dyad", "dense", "row", "col", "one", "zero"]),
                zk=st.sampled_from(["int", "float", "complex", "np", "np0d"]), cplx=cplx)
    inplace = op("inplace", a=ref, b=st.integers(0, 63), sub=st.booleans(), uk=st.lists(vk, min_size=1, max_size=2),
                 vk=st.lists(vk, min_size=1, max_size=2))
    add_dyad = op("add_dyad", a=ref, sh=st.lists(st.integers(0, 2), min_size=2, max_size=2),
                  uk=st.lists(vk, min_size=1, max_size=2), vk=st.lists(vk, min_size=1, max_size=2),
                  form=st.sampled_from(["list", "single", "block", "sym"]),
                  fac=st.sampled_from([None, None, -1.0, 2.5, 0.0, 1]), lead=st.lists(st.integers(1, 3), min_size=1,
                                                                                     max_size=2))
    unary = op("unary", a=ref, f=st.sampled_from(["neg", "pos", "copy", "T", "transpose", "conj", "real", "imag"]))
    mul = op("mul", a=ref, side=st.sampled_from(["l", "r"]),
             sk=st.sampled_from(["int", "float", "complex", "zero", "czero", "npfloat", "npcomplex", "arr0d", "arr1",
                                 "carr1"]))
    matmul = op("matmul", a=ref, b=ref, side=st.sampled_from(["l", "r"]), k=st.integers(0, 2), cplx=cplx,
                other=st.sampled_from(["dense", "dense", "csr", "csc", "coo", "vec", "vec", "dyad", "dyad"]),
                dot=st.booleans())
    getitem = op("getitem", a=ref, r=idx, c=idx)
    setitem = op("setitem", a=ref, axis=st.sampled_from([0, 0, 0, 0, 0, 0, 1, 1, 1, 1, 1, 1, 2]), i=idx_set,
                 val=st.sampled_from(["int", "float", "np", "np0d"]))
    diagonal = op("diagonal", a=ref, k=st.one_of(st.none(), st.integers(-8, 8)))
    contract = op("contract", a=ref, mat=st.sampled_from(["none", "dense", "dense", "dense", "csr", "csc", "coo", "multi"]),
                  matb=st.booleans(), rows=st.sampled_from(["none", "1d", "b"]), cols=st.sampled_from(["none", "1d", "b"]),
                  batch=st.lists(st.integers(1, 3), min_size=1, max_size=3), nr=st.integers(0, 4), nc=st.integers(0, 4),
                  cplx=cplx, neg=st.booleans())
    anyop = st.one_of(new, addsub, addsub, inplace, add_dyad, unary, unary, mul, matmul, matmul, matmul, getitem,
                      getitem, setitem, diagonal, contract, contract)
    return st.fixed_dictionaries({
        "dims": st.lists(dim, min_size=3, max_size=3),
        "init": st.lists(new, min_size=1, max_size=3),
        "ops": st.one_of(st.lists(anyop, min_size=1, max_size=12), st.lists(anyop, min_size=8, max_size=12)),
        # common magnitude of all generated vectors: a carrier of 1e-10-sized vectors must represent its (1e-20-sized)
        # matrix as faithfully, relative to that size, as one of order one
        "vscale": st.sampled_from([1.0, 1.0, 1.0, 1.0, 1e-6, 1e-10, 1e4]),
        "payload_seed": st.integers(0, 2 ** 31 - 1)})


def nontrivial(labels):
    return "nontrivial" in labels


# ---------------------------------------------------------------------------------------------------------------------
# payload helpers (check-side only)
def _vec(rng, kind, n, lead=()):
    shape = tuple(lead) + (n,)
    if kind == "z":
        return np.zeros(shape)
    if kind == "zc":
        return np.zeros(shape, dtype=complex)
    if kind == "q":
        return rng.integers(-2, 3, shape).astype(float)
    if kind == "w":
        a = rng.integers(1, 4, shape).astype(float)          # small integers: a^2 + (i a)^2 == 0 without rounding
        x = a.astype(complex)
        half = n // 2
        x[..., half:2 * half] = 1j * x[..., :half]
        if n % 2:
            x[..., -1] = 0.0
        if n == 1:
            x[..., 0] = 1.0 + 0j
        return x
    re = rng.standard_normal(shape)
    if kind == "r":
        return re
    im = rng.standard_normal(shape)
    if kind == "c":
        return re + 1j * im
    if kind == "i":
        return 1j * im
    if kind == "cr":
        return re + 0j
    raise ValueError(kind)


def _dense(rng, shape, cplx):
    x = rng.standard_normal(shape) / max(1.0, np.sqrt(shape[0] if len(shape) else 1))
    if cplx:
        x = x + 1j * rng.standard_normal(shape) / max(1.0, np.sqrt(shape[0] if len(shape) else 1))
    return x


def _sparse(rng, shape, cplx, fmt):
    x = _dense(rng, shape, cplx) * (rng.random(shape) < 0.6)
    return {"csr": sp.csr_matrix, "csc": sp.csc_matrix, "coo": sp.coo_matrix}[fmt](x)


def _outer_sum(us, vs, shape):
    """Documented semantics: sum_k sum_{a,b} U_k[a] (x) V_k[b] over all leading indices a, b (own loops)."""
    m = np.zeros(shape)
    if shape[0] == 0 or shape[1] == 0:
        return m.astype(np.result_type(np.float64, *[np.asarray(x).dtype for x in list(us) + list(vs)]))
    for u, v in zip(us, vs):
        u2 = np.asarray(u).reshape(-1, shape[0])
        v2 = np.asarray(v).reshape(-1, shape[1])
        for a in range(u2.shape[0]):
            for b in range(v2.shape[0]):
                m = m + u2[a][:, None] * v2[b][None, :]
    return m


def _mag(us, vs):
    s = 0.0
    for u, v in zip(us, vs):
        if np.size(u) == 0 or np.size(v) == 0:
            continue
        u2 = np.abs(np.asarray(u)).reshape(-1, np.shape(u)[-1] if np.ndim(u) else 1)
        v2 = np.abs(np.asarray(v)).reshape(-1, np.shape(v)[-1] if np.ndim(v) else 1)
        s += (u2.sum(axis=0).max() if u2.size else 0.0) * (v2.sum(axis=0).max() if v2.size else 0.0)
    return float(s)


def _iscomplex_dtype(x):
    return np.iscomplexobj(x)


def _excname(e):
    for c in type(e).__mro__:
        if not c.__name__.startswith("_"):
            return c.__name__
    return type(e).__name__


def _snap_ext(x):
    if sp.issparse(x):
        return ("sp", type(x).__name__, x.shape, x.toarray().copy())
    if isinstance(x, np.ndarray):
        return ("nd", x.dtype, x.shape, x.copy())
    if isinstance(x, (list, tuple)):
        return ("seq", type(x).__name__, [_snap_ext(y) for y in x])
    return ("obj", type(x).__name__, x)


def _same_ext(a, b):
    if a[0] != b[0] or a[1] != b[1]:
        return False
    if a[0] == "seq":
        return len(a[2]) == len(b[2]) and all(_same_ext(p, q) for p, q in zip(a[2], b[2]))
    if a[0] == "obj":
        return (a[2] is b[2]) or bool(np.all(a[2] == b[2]))
    return a[2] == b[2] and np.array_equal(a[3], b[3])


class _GuardList(list):
    """list that refuses to grow beyond a bound (only installed for x += x on one object, see ASSUMPTIONS)."""
    bound = 0

    def append(self, x):
        if len(self) >= self.bound:
            raise RuntimeError("runaway: list being iterated keeps growing")
        list.append(self, x)


# ---------------------------------------------------------------------------------------------------------------------
class _Run:
    def __init__(self, case):
        import pymoto
        self.D = pymoto.DyadCarrier
        self.case = case
        self.dims = [int(d) for d in case["dims"]]
        self.pool = []
        self.V = []
        self.labels = set()
        self.kinds = set()
        self.nexec = 0
        self.mix = False
        self.empty = False
        self.stop = False
        self.step = -1
        self.cur = None

    # ---- bookkeeping
    def rng(self, op):
        return np.random.default_rng([int(self.case["payload_seed"]), int(op["s"])])

    def bad(self, bucket, detail):
        self.V.append(viol(f"C15:{bucket}", f"step {self.step} {self._opstr()}: {detail}"))

    def _opstr(self):
        return "" if self.cur is None else str({k: v for k, v in self.cur.items() if k != "s"})[:300]

    def pm(self, what, fn):
        """Call into pyMOTO; an exception on an admissible input is a violation."""
        try:
            return fn()
        except Exception as e:
            tb = traceback.extract_tb(e.__traceback__)
            meth = next((f.name for f in reversed(tb) if f.filename.endswith("dyadcarrier.py")), None)
            where = meth if meth is not None else what
            if isinstance(e, RuntimeError) and str(e).startswith("runaway"):
                self.bad("runaway:inplace_self", f"{what} with the same object on both sides never terminates: "
                                                 f"add_dyad appends to the list it iterates over")
                return _FAIL
            self.bad(f"raises:{where}:{_excname(e)}", f"{what}: {type(e).__name__}: {str(e)[:200]}")
            return _FAIL

    def ent(self, i):
        return self.pool[int(i) % len(self.pool)]

    def push(self, d, m, s):
        e = {"d": d, "m": m, "s": float(s)}
        self.pool.append(e)
        return e

    def note(self, e):
        """Classification of an entry taking part in an operation."""
        if e["m"] is None:
            self.labels.add("shapeless")
            self.empty = True
            return
        try:
            nd = len(e["d"].u)
        except Exception:
            nd = -1
        if nd == 0:
            self.labels.add("empty_shaped")
            self.empty = True
        if nd > 0:
            kinds = {_iscomplex_dtype(x) for x in list(e["d"].u) + list(e["d"].v)}
            if len(kinds) == 2:
                self.mixed()
        if e["m"].size == 0:
            self.labels.add("zero_size")

    def mixed(self):
        self.mix = True
        self.labels.add("mix")

    def mixcheck(self, e, other_complex):
        if e["m"] is not None and _iscomplex_dtype(e["m"]) != bool(other_complex):
            self.mixed()

    # ---- comparisons
    def tol(self, s):
        return TOL * s

    def cmp_array(self, what, got, want, s, bucket, model_real=None):
        """Return value `got` (array/scalar) must equal `want` in shape, value and dtype class."""
        if isinstance(got, self.D):
            self.bad(f"type:{bucket}", f"{what}: returned a DyadCarrier, expected an array of shape {np.shape(want)}")
            return False
        try:
            g = np.asarray(got)
        except Exception:
            self.bad(f"type:{bucket}", f"{what}: returned {type(got).__name__}")
            return False
        if g.dtype == object:
            self.bad(f"type:{bucket}", f"{what}: returned object of type {type(got).__name__}")
            return False
        ok = True
        if g.shape != np.shape(want):
            self.bad(f"shape:{bucket}", f"{what}: result shape {g.shape}, dense model gives {np.shape(want)}")
            return False
        w = np.asarray(want)
        err = float(np.abs(g - w).max()) if w.size else 0.0
        if not err <= self.tol(s):
            self.bad(f"value:{bucket}", f"{what}: max |result - dense model| = {err:.3e} (tolerance {self.tol(s):.1e})")
            ok = False
        if not _iscomplex_dtype(w) and _iscomplex_dtype(g):
            self.bad(f"dtype:{bucket}", f"{what}: all inputs real but result dtype {g.dtype}")
            ok = False
        if _iscomplex_dtype(w) and w.size and np.abs(w.imag).max() > self.tol(s) and not _iscomplex_dtype(g):
            self.bad(f"dtype:{bucket}", f"{what}: model has non-zero imaginary part but result dtype {g.dtype}")
            ok = False
        return ok

    def check_entry(self, e, bucket, what):
        """Compare one live value with its model. Returns False (and stops the program) on a mismatch."""
        d, m = e["d"], e["m"]
        r = self.pm("todense", lambda: (d.shape, d.size, d.n_dyads, d.iscomplex(), d.todense(), d.toarray()))
        if r is _FAIL:
            self.stop = True
            return False
        shape, size, nd, isc, dense, dense2 = r
        ok = True
        if m is None:
            if tuple(shape) != (-1, -1) or nd != 0 or np.shape(dense) != (0, 0) or size != 0:
                self.bad(f"shape:{bucket}", f"{what}: expected the shapeless empty carrier, got shape {shape}, "
                                            f"{nd} dyads, todense {np.shape(dense)}")
                ok = False
        else:
            if tuple(int(x) for x in shape) != m.shape or np.shape(dense) != m.shape:
                self.bad(f"shape:{bucket}", f"{what}: shape {shape} / todense {np.shape(dense)}; dense model {m.shape}")
                ok = False
            else:
                if size != m.size:
                    self.bad(f"shape:{bucket}", f"{what}: size {size}, dense model {m.size}")
                    ok = False
                err = float(np.abs(dense - m).max()) if m.size else 0.0
                if not err <= self.tol(e["s"]):
                    self.bad(f"value:{bucket}", f"{what}: max |todense - dense model| = {err:.3e} "
                                                f"(tolerance {self.tol(e['s']):.1e}, shape {m.shape})")
                    ok = False
                if not _iscomplex_dtype(m) and (_iscomplex_dtype(dense) or isc):
                    self.bad(f"dtype:{bucket}", f"{what}: all inputs real but carrier is complex ({dense.dtype})")
                    ok = False
                if _iscomplex_dtype(m) and m.size and np.abs(m.imag).max() > self.tol(e["s"]) and \
                        not (_iscomplex_dtype(dense) and isc):
                    self.bad(f"dtype:{bucket}", f"{what}: non-zero imaginary part but carrier is real")
                    ok = False
        if bool(isc) != _iscomplex_dtype(dense):
            self.bad("dtype:iscomplex", f"{what}: iscomplex()={isc} but todense dtype {dense.dtype}")
            ok = False
        if np.shape(dense2) != np.shape(dense) or not np.array_equal(dense, dense2):
            self.bad("value:toarray", f"{what}: toarray() differs from todense()")
            ok = False
        # read-only observers are evaluated on every live value after every step (not only when a program happens to
        # call them): a result cached by an earlier observation must follow later in-place changes of the value
        if ok and m is not None and m.size:
            S = sp.coo_matrix(np.triu(np.ones(m.shape)))
            r2 = self.pm("contract_multi", lambda: (d.contract_multi([S]), d.diagonal()))
            if r2 is _FAIL:
                self.stop = True
                return False
            cm, dg = r2
            want_cm = np.sum(np.triu(m))
            tolv = self.tol(e["s"]) * max(1, m.size)
            if np.shape(cm) != (1,) or not abs(complex(cm[0]) - complex(want_cm)) <= tolv:
                self.bad("value:observer:contract_multi", f"{what}: contract_multi([triu ones]) = {cm!r}, dense model gives "
                                                          f"{want_cm!r}")
                ok = False
            want_dg = np.diagonal(m)
            if np.shape(dg) != want_dg.shape or (want_dg.size and not np.abs(dg - want_dg).max() <= tolv):
                self.bad("value:observer:diagonal", f"{what}: diagonal() differs from the dense model")
                ok = False
        if not ok:
            self.stop = True
        return ok

    def verify(self, opname, targets):
        """After a step: every live value equals its model; non-targets are 'operands/bystanders'."""
        for j, e in enumerate(self.pool):
            if any(e is t for t in targets):
                if not self.check_entry(e, opname, f"result of {opname}"):
                    return
            else:
                if not self.check_entry(e, f"bystander_changed:{opname}", f"value #{j} (not the target of {opname})"):
                    return

    # ---- operand snapshots
    def snap(self, e):
        d = e["d"]
        return ([np.array(x, copy=True) for x in d.u], [np.array(x, copy=True) for x in d.v], tuple(d.shape),
                np.dtype(d.dtype), [id(x) for x in d.u], [id(x) for x in d.v])

    def unchanged(self, e, sn, opname):
        d = e["d"]
        same = (len(d.u) == len(sn[0]) and len(d.v) == len(sn[1]) and tuple(d.shape) == sn[2]
                and np.dtype(d.dtype) == sn[3]
                and all(a.dtype == b.dtype and np.array_equal(a, b) for a, b in zip(d.u, sn[0]))
                and all(a.dtype == b.dtype and np.array_equal(a, b) for a, b in zip(d.v, sn[1])))
        if not same:
            self.bad(f"operand_changed:{opname}", "u/v lists, shape or dtype of an operand differ from the snapshot "
                                                  "taken before the operation")
            self.stop = True

    # ---- index helpers
    def build_index(self, spec, n):
        """-> (index object, kind) valid for an axis of length n (numpy semantics)."""
        t = spec["t"]
        if t == "slice":
            return slice(spec["a"], spec["b"], spec["c"]), "slice"
        if n == 0:
            if t == "arr":
                return np.zeros(0, dtype=np.int64), "arr"
            return slice(None, None, None), "slice"
        if t == "int":
            i = int(spec["i"])
            i = i % n if i >= 0 else -((-i - 1) % n) - 1
            return (np.int64(i) if spec.get("np") else i), "int"
        ii = [(i % n if i >= 0 else -((-i - 1) % n) - 1) for i in spec["i"]]
        return np.array(ii, dtype=np.int64), "arr"

    # ---- constructors
    def make_vectors(self, rng, kinds_u, kinds_v, n, m, form, lead):
        nd = len(kinds_u)
        kv = [kinds_v[k % len(kinds_v)] for k in range(nd)]
        if form == "block":
            lu = tuple(lead)
            lv = tuple(reversed(lead))
            us = [_vec(rng, kinds_u[k], n, lu if k % 2 == 0 else ()) for k in range(nd)]
            vs = [_vec(rng, kv[k], m, lv if k % 3 != 1 else ()) for k in range(nd)]
        else:
            us = [_vec(rng, kinds_u[k], n) for k in range(nd)]
            vs = [_vec(rng, kv[k], m) for k in range(nd)]
        vsc = float(self.case.get("vscale", 1.0))
        if vsc != 1.0:
            us, vs = [u * vsc for u in us], [v * vsc for v in vs]
            self.labels.add(f"vscale:{vsc:g}")
        ks = set(kinds_u) | set(kv)
        if ks & {"r", "q", "z"} and ks & {"c", "i", "cr", "zc", "w"}:
            self.mixed()
        return us, vs

    def op_new(self, op, to_pool=True, shape=None):
        D = self.D
        rng = self.rng(op)
        kind = op["kind"]
        n, m = shape if shape is not None else (self.dims[op["sh"][0]], self.dims[op["sh"][1]])
        if shape is not None and kind in ("empty", "empty_shape0", "scalars", "scalar1", "sym"):
            kind = "list"
        self.labels.add(f"new:{kind}")
        if kind == "empty":
            d = self.pm("DyadCarrier()", lambda: D())
            mdl, s = None, 0.0
        elif kind in ("empty_shape", "empty_shape0"):
            if kind == "empty_shape0":
                n, m = (0, m) if op["gs"] else (n, 0)
            d = self.pm("DyadCarrier(shape=)", lambda: D(shape=(n, m)))
            mdl, s = np.zeros((n, m)), 0.0
        elif kind in ("scalars", "scalar1"):
            us, vs = self.make_vectors(rng, op["uk"], op["vk"], 1, 1, "list", ())
            ul = [complex(u[0]) if _iscomplex_dtype(u) else float(u[0]) for u in us]
            vl = [complex(v[0]) if _iscomplex_dtype(v) else float(v[0]) for v in vs]
            if kind == "scalar1":
                ul, vl, us, vs = ul[0], vl[0], us[:1], vs[:1]
            d = self.pm("DyadCarrier(scalars)", lambda: D(ul, vl))
            mdl, s = _outer_sum(us, vs, (1, 1)), _mag(us, vs)
        elif kind == "sym":
            us, _ = self.make_vectors(rng, op["uk"], op["uk"], n, n, "list", ())
            arg = us[0] if len(us) == 1 and op["gs"] else list(us)
            us0 = [u.copy() for u in us]
            d = self.pm("DyadCarrier(u)", lambda: D(arg))
            mdl, s = _outer_sum(us0, us0, (n, n)), _mag(us0, us0)
        else:
            form = "block" if kind == "block" else "list"
            us, vs = self.make_vectors(rng, op["uk"], op["vk"], n, m, form, op["lead"])
            if kind == "single":
                us, vs = us[:1], vs[:1]
                ua, va = us[0], vs[0]
            elif kind == "pylist":
                ua, va = [u.tolist() for u in us], [v.tolist() for v in vs]
            elif kind == "block" and len(us) == 1:
                ua, va = us[0], vs[0]
            else:
                ua, va = list(us), list(vs)
            us0, vs0 = [u.copy() for u in us], [v.copy() for v in vs]
            if op["gs"]:
                d = self.pm("DyadCarrier(u, v, shape=)", lambda: D(ua, va, shape=(n, m)))
            else:
                d = self.pm("DyadCarrier(u, v)", lambda: D(ua, va))
            if d is not _FAIL and not all(np.array_equal(a, b) for a, b in zip(us + vs, us0 + vs0)):
                self.bad("operand_changed:new", "constructor changed the vectors passed in")
            mdl, s = _outer_sum(us0, vs0, (n, m)), _mag(us0, vs0)
            # (dyads with a zero factor are not stored; without shape= the shape is still taken from the vectors)
        if d is _FAIL:
            return None
        e = {"d": d, "m": mdl, "s": float(s)}
        if to_pool:
            self.pool.append(e)
        self.note(e)
        return e

    # ---- operations
    def conforming(self, a, k):
        c = [j for j, e in enumerate(self.pool) if e["m"] is None or a["m"] is None or e["m"].shape == a["m"].shape]
        return self.pool[c[int(k) % len(c)]]

    @staticmethod
    def zero_of(kind):
        return {"int": 0, "float": 0.0, "complex": 0j, "np": np.float64(0.0), "np0d": np.array(0.0)}[kind]

    def op_addsub(self, op):
        a = self.ent(op["a"])
        sub, left = op["sub"], op["side"] == "l"   # left: carrier is the left operand
        other = op["other"]
        name = "sub" if sub else "add"
        if other == "dyad":
            b = self.conforming(a, op["b"])
            if len(a["d"].u) + len(b["d"].u) > MAX_DYADS:
                return False
            self.note(a), self.note(b)
            if a["m"] is not None and b["m"] is not None:
                self.mixcheck(a, _iscomplex_dtype(b["m"]))
            sa, sb = self.snap(a), self.snap(b)
            r = self.pm(f"dyad {'-' if sub else '+'} dyad", (lambda: a["d"] - b["d"]) if sub else (lambda: a["d"] + b["d"]))
            self.unchanged(a, sa, name), self.unchanged(b, sb, name)
            if r is _FAIL:
                return True
            if not isinstance(r, self.D):
                self.bad(f"type:{name}", f"dyad{'-' if sub else '+'}dyad returned {type(r).__name__}")
                return True
            if a["m"] is None and b["m"] is None:
                mdl = None
            elif b["m"] is None:
                mdl = a["m"].copy()
            elif a["m"] is None:
                mdl = -b["m"] if sub else b["m"].copy()
                if tuple(r.shape) == (-1, -1) and len(r.u) == 0 and not np.any(mdl):
                    mdl = None   # shapeless (+/-) empty carrier with a shape may stay shapeless (see ASSUMPTIONS)
            else:
                mdl = a["m"] - b["m"] if sub else a["m"] + b["m"]
            e = self.push(r, mdl, a["s"] + b["s"])
            self.verify(name, [e])
            return True
        if a["m"] is None:
            if other != "zero":
                return False
        self.note(a)
        sa = self.snap(a)
        if other in ("zero",):
            z = self.zero_of(op["zk"])
            if left:
                r = self.pm(f"dyad{'-' if sub else '+'}0", (lambda: a["d"] - z) if sub else (lambda: a["d"] + z))
                mdl = None if a["m"] is None else (a["m"] - z if sub else a["m"] + z)
            else:
                r = self.pm(f"0{'-' if sub else '+'}dyad", (lambda: z - a["d"]) if sub else (lambda: z + a["d"]))
                mdl = None if a["m"] is None else (z - a["m"] if sub else z + a["m"])
            self.unchanged(a, sa, name + "0")
            if r is _FAIL:
                return True
            if not isinstance(r, self.D):
                self.bad(f"type:{name}0", f"dyad +/- 0 returned {type(r).__name__}")
                return True
            e = self.push(r, mdl, a["s"])
            self.labels.add("addsub:zero")
            self.verify(name + "0", [e])
            return True
        # dense operand (broadcastable to the carrier's shape)
        rng = self.rng(op)
        n, m = a["m"].shape
        shp = {"dense": (n, m), "row": (m,), "col": (n, 1), "one": (1, 1)}[other]
        x = _dense(rng, shp, op["cplx"])
        self.mixcheck(a, op["cplx"])
        x0 = _snap_ext(x)
        if left:
            r = self.pm(f"dyad{'-' if sub else '+'}dense", (lambda: a["d"] - x) if sub else (lambda: a["d"] + x))
            want = a["m"] - x if sub else a["m"] + x
        else:
            r = self.pm(f"dense{'-' if sub else '+'}dyad", (lambda: x - a["d"]) if sub else (lambda: x + a["d"]))
            want = x - a["m"] if sub else x + a["m"]
        self.unchanged(a, sa, name + "_dense")
        if not _same_ext(x0, _snap_ext(x)):
            self.bad(f"operand_changed:{name}_dense", "dense operand was modified")
        self.labels.add("addsub:dense")
        if r is not _FAIL:
            self.cmp_array(f"dyad (+/-) dense {shp}", r, want, a["s"] + (float(np.abs(x).max()) if x.size else 0.0), name + "_dense")
        self.verify(name + "_dense", [])
        return True

    def op_inplace(self, op):
        a = self.ent(op["a"])
        sub = op["sub"]
        name = "isub" if sub else "iadd"
        # operand: another conforming value, a fresh carrier of the same shape, or (1 in 8) the target itself
        others = [e for e in self.pool if e is not a and e["d"] is not a["d"] and
                  (e["m"] is None or a["m"] is None or e["m"].shape == a["m"].shape)]
        kb = int(op["b"])
        if kb % 8 == 7:
            b = a
        elif others and (kb // 8) % (len(others) + 1) < len(others):
            b = others[(kb // 8) % (len(others) + 1)]
        else:
            shp = a["m"].shape if a["m"] is not None else (self.dims[0], self.dims[1])
            b = self.op_new({"kind": "list", "uk": op["uk"], "vk": op["vk"], "gs": bool(kb & 8), "lead": [1],
                             "s": op["s"], "sh": [0, 1]}, to_pool=False, shape=shp)
            if b is None:
                return True
        if len(a["d"].u) + len(b["d"].u) > MAX_DYADS:
            return False
        self.note(a), self.note(b)
        if a["m"] is not None and b["m"] is not None:
            self.mixcheck(a, _iscomplex_dtype(b["m"]))
        d = a["d"]
        same = b is a or b["d"] is d
        if same:
            self.labels.add("inplace:self")
            name += "_self"
            g = _GuardList(d.u)
            g.bound = 2 * len(d.u) + 4
            gv = _GuardList(d.v)
            gv.bound = 2 * len(d.v) + 4
            d.u, d.v = g, gv
        else:
            sb = self.snap(b)
        bm = None if b["m"] is None else b["m"].copy()

        def run():
            x = d
            if sub:
                x -= b["d"]
            else:
                x += b["d"]
            return x
        r = self.pm("dyad -= dyad" if sub else "dyad += dyad", run)
        if same:
            d.u, d.v = list(d.u), list(d.v)
        else:
            self.unchanged(b, sb, name)
        if r is _FAIL:
            if same:   # state of the target is undefined after the guarded failure: drop it and everything after
                self.stop = True
            return True
        if r is not d:
            self.bad(f"type:{name}", "in-place operation did not return the target object")
            self.stop = True
            return True
        if bm is not None:
            if a["m"] is None:
                mdl = -bm if sub else bm
                if tuple(d.shape) == (-1, -1) and len(d.u) == 0 and not np.any(mdl):
                    mdl = None
                a["m"] = mdl
            else:
                a["m"] = a["m"] - bm if sub else a["m"] + bm
        a["s"] = a["s"] + b["s"]
        self.verify(name, [a])
        return True

    def op_add_dyad(self, op):
        a = self.ent(op["a"])
        if len(a["d"].u) + len(op["uk"]) > MAX_DYADS:
            return False
        rng = self.rng(op)
        self.note(a)
        form = op["form"]
        if a["m"] is None:
            n, m = self.dims[op["sh"][0]], self.dims[op["sh"][1]]
            if form == "sym":
                m = n
        else:
            n, m = a["m"].shape
            if form == "sym" and n != m:
                form = "list"
        if form == "sym":
            us, _ = self.make_vectors(rng, op["uk"], op["uk"], n, n, "list", ())
            vs = us
            ua, va = (us[0] if len(us) == 1 else list(us)), None
        else:
            us, vs = self.make_vectors(rng, op["uk"], op["vk"], n, m, "block" if form == "block" else "list", op["lead"])
            if form == "single":
                us, vs = us[:1], vs[:1]
                ua, va = us[0], vs[0]
            else:
                ua, va = list(us), list(vs)
        if a["m"] is not None:
            self.mixcheck(a, any(_iscomplex_dtype(x) for x in us + vs))
        fac = op["fac"]
        us0, vs0 = [u.copy() for u in us], [v.copy() for v in vs]
        d = a["d"]
        if fac is None:
            r = self.pm("add_dyad(u, v)", (lambda: d.add_dyad(ua)) if va is None else (lambda: d.add_dyad(ua, va)))
        else:
            r = self.pm("add_dyad(u, v, fac)", (lambda: d.add_dyad(ua, fac=fac)) if va is None else
                        (lambda: d.add_dyad(ua, va, fac=fac)))
            self.labels.add("add_dyad:fac")
        if not all(np.array_equal(p, q) for p, q in zip(us + vs, us0 + vs0)):
            self.bad("operand_changed:add_dyad", "add_dyad changed the vectors passed in")
        if r is _FAIL:
            self.stop = True
            return True
        if r is not d:
            self.bad("type:add_dyad", "add_dyad did not return self")
        f = 1.0 if fac is None else fac
        inc = _outer_sum(us0, vs0, (n, m)) * f
        a["m"] = inc if a["m"] is None else a["m"] + inc
        a["s"] = a["s"] + abs(f) * _mag(us0, vs0)
        self.verify("add_dyad", [a])
        return True

    def op_unary(self, op):
        a = self.ent(op["a"])
        f = op["f"]
        self.note(a)
        d, m = a["d"], a["m"]
        if f in ("real", "imag") and 2 * len(d.u) > MAX_DYADS:
            return False
        sa = self.snap(a)
        fn = {"neg": lambda: -d, "pos": lambda: +d, "copy": lambda: d.copy(), "T": lambda: d.T,
              "transpose": lambda: d.transpose(), "conj": lambda: d.conj(), "real": lambda: d.real,
              "imag": lambda: d.imag}[f]
        r = self.pm(f, fn)
        self.unchanged(a, sa, f)
        if r is _FAIL:
            return True
        if not isinstance(r, self.D):
            self.bad(f"type:{f}", f"{f} returned {type(r).__name__}")
            return True
        if m is None:
            mdl = None
        else:
            mdl = {"neg": lambda: -m, "pos": lambda: m.copy(), "copy": lambda: m.copy(), "T": lambda: m.T.copy(),
                   "transpose": lambda: m.T.copy(), "conj": lambda: np.conj(m), "real": lambda: np.real(m).copy(),
                   "imag": lambda: np.imag(m).copy()}[f]()
        e = self.push(r, mdl, a["s"] * (2.0 if f in ("real", "imag") else 1.0))
        self.verify(f, [e])
        return True

    def op_mul(self, op):
        a = self.ent(op["a"])
        rng = self.rng(op)
        self.note(a)
        sk = op["sk"]
        re, im = float(np.round(rng.uniform(-2, 2), 3)), float(np.round(rng.uniform(-2, 2), 3))
        c = {"int": int(rng.integers(-3, 4)), "float": re, "complex": complex(re, im), "zero": 0.0, "czero": 0j,
             "npfloat": np.float64(re), "npcomplex": np.complex128(complex(re, im)), "arr0d": np.array(re),
             "arr1": np.array([re]), "carr1": np.array([complex(re, im)])}[sk]
        self.mixcheck(a, _iscomplex_dtype(np.asarray(c)))
        if sk in ("zero", "czero") or (sk == "int" and c == 0):
            self.labels.add("mul:zero")
        sa = self.snap(a)
        d, m = a["d"], a["m"]
        left = op["side"] == "l"
        r = self.pm("dyad*scalar" if left else "scalar*dyad", (lambda: d * c) if left else (lambda: c * d))
        self.unchanged(a, sa, "mul")
        if r is _FAIL:
            return True
        if not isinstance(r, self.D):
            self.bad("type:mul", f"scalar product ({sk}) returned {type(r).__name__}")
            return True
        mdl = None if m is None else (m * c if left else c * m)
        e = self.push(r, mdl, a["s"] * float(np.abs(c).max()))
        self.verify("mul", [e])
        return True

    def op_matmul(self, op):
        a = self.ent(op["a"])
        if a["m"] is None:
            return False
        rng = self.rng(op)
        self.note(a)
        d, m = a["d"], a["m"]
        left = op["side"] == "l"       # carrier on the left: d @ X
        other = op["other"]
        usedot = op["dot"] and left
        n_in = m.shape[1] if left else m.shape[0]
        k = self.dims[op["k"]]
        name = ("dot" if usedot else "matmul" if left else "rmatmul") + ":" + \
            ("sparse" if other in ("csr", "csc", "coo") else other)
        sa = self.snap(a)
        if other == "dyad":
            c = [e for e in self.pool if e["m"] is not None and (e["m"].shape[0] if left else e["m"].shape[1]) == n_in]
            if not c:
                return False
            b = c[int(op["b"]) % len(c)]
            if len(d.u) > MAX_DYADS or len(b["d"].u) > MAX_DYADS:
                return False
            self.note(b)
            self.mixcheck(a, _iscomplex_dtype(b["m"]))
            sb = self.snap(b)
            x, xm = b["d"], b["m"]
            xs = b["s"] * max(1, n_in)
        else:
            sb = None
            if other == "vec":
                x = _dense(rng, (n_in,), op["cplx"]) * np.sqrt(max(1, n_in))
                xm = x
                xs = float(np.abs(x).sum()) if x.size else 0.0
            else:
                shp = (n_in, k) if left else (k, n_in)
                x = _dense(rng, shp, op["cplx"]) if other == "dense" else _sparse(rng, shp, op["cplx"], other)
                xm = x.toarray() if sp.issparse(x) else x
                xs = float(np.abs(xm).sum(axis=0 if left else 1).max()) if xm.size else 0.0
            self.mixcheck(a, op["cplx"])
            x0 = _snap_ext(x)
        if usedot:
            r = self.pm("dyad.dot(X)", lambda: d.dot(x))
        elif left:
            r = self.pm("dyad @ X", lambda: d @ x)
        else:
            r = self.pm("X @ dyad", lambda: x @ d)
        self.unchanged(a, sa, name)
        if sb is not None:
            self.unchanged(b, sb, name)
        elif not _same_ext(x0, _snap_ext(x)):
            self.bad(f"operand_changed:{name}", "matrix/vector operand was modified")
        self.labels.add(name)
        if r is _FAIL:
            return True
        want = m @ xm if left else xm @ m
        s = a["s"] * xs
        if other == "vec":
            self.cmp_array(name, r, want, s, name)
            self.verify(name, [])
            return True
        if not isinstance(r, self.D):
            self.bad(f"type:{name}", f"matrix product returned {type(r).__name__}")
            return True
        e = self.push(r, np.array(want), s)
        self.verify(name, [e])
        return True

    def op_getitem(self, op):
        a = self.ent(op["a"])
        if a["m"] is None:
            return False
        self.note(a)
        d, m = a["d"], a["m"]
        ri, rk = self.build_index(op["r"], m.shape[0])
        ci, ck = self.build_index(op["c"], m.shape[1])
        if rk == "arr" and ck == "arr":
            # index arrays must have the same shape (different shapes are a documented refusal)
            L = len(ri)
            ci = np.array([ci[j % len(ci)] for j in range(L)], dtype=np.int64) if len(ci) else \
                np.zeros(L, dtype=np.int64) if m.shape[1] > 0 else None
            if ci is None:
                ri = np.zeros(0, dtype=np.int64)
                ci = np.zeros(0, dtype=np.int64)
            if op["r"].get("two") and len(ri) >= 2:
                L2 = len(ri) - len(ri) % 2
                ri, ci = ri[:L2].reshape(2, -1), ci[:L2].reshape(2, -1)
            variant = "np"
        elif rk == "int" or ck == "int":
            variant = "uni"
        else:
            variant = "sub"
        name = f"getitem:{variant}"
        self.labels.add(name)
        self.labels.add(f"getitem:{rk},{ck}")
        sa = self.snap(a)
        i0 = _snap_ext([ri, ci])
        r = self.pm(f"dyad[{rk},{ck}]", lambda: d[ri, ci])
        self.unchanged(a, sa, name)
        if not _same_ext(i0, _snap_ext([ri, ci])):
            self.bad(f"operand_changed:{name}", "index arrays were modified")
        if r is _FAIL:
            return True
        want = m[ri, ci]
        if variant == "sub":
            if not isinstance(r, self.D):
                self.bad(f"type:{name}", f"sub-matrix access [{rk},{ck}] returned {type(r).__name__}")
                return True
            e = self.push(r, np.array(want), a["s"])
            self.verify(name, [e])
        else:
            self.cmp_array(f"dyad[{rk},{ck}] ({len(d.u)} dyads)", r, want, a["s"], "getitem")
            self.verify(name, [])
        return True

    def op_setitem(self, op):
        a = self.ent(op["a"])
        if a["m"] is None:
            return False
        self.note(a)
        d, m = a["d"], a["m"]
        axis = op["axis"]
        val = self.zero_of(op["val"])
        null = slice(None, None, None)
        if axis == 2:
            key, variant = (null, null), "full"
        else:
            ix, _ = self.build_index(op["i"], m.shape[axis])
            if isinstance(ix, slice) and ix == null:
                key, variant = (null, null), "full"
            else:
                key, variant = ((ix, null), "rows") if axis == 0 else ((null, ix), "cols")
        name = f"setitem:{variant}"
        self.labels.add(name)
        i0 = _snap_ext(list(key))

        def run():
            d[key[0], key[1]] = val
        r = self.pm(f"dyad[{variant}] = 0", run)
        if not _same_ext(i0, _snap_ext(list(key))):
            self.bad(f"operand_changed:{name}", "index arrays were modified")
        if r is _FAIL:
            self.stop = True
            return True
        mm = m.copy()
        mm[key[0], key[1]] = 0
        a["m"] = mm
        self.verify(name, [a])
        return True

    def op_diagonal(self, op):
        a = self.ent(op["a"])
        self.note(a)
        d, m = a["d"], a["m"]
        k = op["k"]
        sa = self.snap(a)
        r = self.pm("diagonal", (lambda: d.diagonal()) if k is None else (lambda: d.diagonal(k)))
        self.unchanged(a, sa, "diagonal")
        if r is _FAIL:
            return True
        mm = np.zeros((0, 0)) if m is None else m
        want = np.diagonal(mm, 0 if k is None else k)
        self.cmp_array(f"diagonal({k}) of shape {mm.shape}", r, want, a["s"], "diagonal")
        self.verify("diagonal", [])
        return True

    def op_contract(self, op):
        a = self.ent(op["a"])
        self.note(a)
        d, m = a["d"], a["m"]
        sa = self.snap(a)
        if m is None:
            r = self.pm("contract()", lambda: d.contract())
            self.unchanged(a, sa, "contract")
            if r is not _FAIL:
                self.cmp_array("contract() of the shapeless carrier", r, 0.0, 0.0, "contract:trace")
            self.labels.add("contract:trace")
            return True
        rng = self.rng(op)
        n, mc = m.shape
        mat, rows, cols = op["mat"], op["rows"], op["cols"]
        if min(n, mc) == 0:
            rows, cols = "none", "none"
        sparse = mat in ("csr", "csc", "coo", "multi")
        matb = op["matb"] and mat == "dense"
        if sparse:
            rows = "1d" if rows == "b" else rows
            cols = "1d" if cols == "b" else cols
        if mat == "multi":
            rows = cols = "none"
        nr = n if rows == "none" else op["nr"]
        nc = mc if cols == "none" else op["nc"]
        if mat == "none" and nr != nc:
            if rows != "none" and cols != "none":
                nc = nr
            elif rows != "none":
                nr = nc
            elif cols != "none":
                nc = nr
            else:
                mat = "dense"
        batch = tuple(op["batch"]) if (matb or rows == "b" or cols == "b") else ()

        def mkidx(kind, cnt, hi):
            if kind == "none":
                return None
            shp = batch + (cnt,) if kind == "b" else (cnt,)
            ix = rng.integers(0, hi, shp).astype(np.int64)
            if op["neg"]:
                ix = np.where(rng.random(shp) < 0.3, ix - hi, ix)
            return ix
        R, C = mkidx(rows, nr, n), mkidx(cols, nc, mc)
        if mat == "none":
            B = None
        elif mat == "dense":
            B = _dense(rng, (batch if matb else ()) + (nr, nc), op["cplx"])
        elif mat == "multi":
            B = []
            for _ in range(1 + len(op["batch"])):
                fmt = ["coo", "csr", "csc"][int(rng.integers(0, 3))]
                B.append(_sparse(rng, (nr, nc), op["cplx"], fmt))
            if op["matb"] and len(B) > 1:
                B[1] = None
        else:
            B = _sparse(rng, (nr, nc), op["cplx"], mat)
        if B is not None:
            self.mixcheck(a, op["cplx"])
        variant = ("multi" if mat == "multi" else "batch" if batch else "sparse" if sparse else
                   "trace" if (B is None and R is None and C is None) else "plain")
        name = f"contract:{variant}"
        self.labels.add(name)
        if R is not None or C is not None:
            self.labels.add("contract:sliced")
        if len(batch) > 1:
            self.labels.add("contract:batch_nd")
        x0 = _snap_ext([B, R, C])
        kw = {}
        if R is not None:
            kw["rows"] = R
        if C is not None:
            kw["cols"] = C
        if mat == "multi":
            r = self.pm("contract_multi", lambda: d.contract_multi(B))
        elif B is None:
            r = self.pm("contract(rows, cols)", lambda: d.contract(**kw))
        elif R is not None and C is None and op["neg"]:
            r = self.pm("contract(mat, rows)", lambda: d.contract(B, R))   # positional form used in the docs
        else:
            r = self.pm("contract(mat, ...)", lambda: d.contract(B, **kw))
        self.unchanged(a, sa, name)
        if not _same_ext(x0, _snap_ext([B, R, C])):
            self.bad(f"operand_changed:{name}", "matrix / index operands of contract were modified")
        if r is _FAIL:
            return True

        # reference: y_p = sum_ij A[rows_p[i], cols_p[j]] * B_p[i, j]   (B = identity pattern if omitted)
        def one(Bp, Rp, Cp):
            rr = np.arange(n) if Rp is None else Rp
            cc = np.arange(mc) if Cp is None else Cp
            tot = np.zeros((), dtype=np.result_type(m.dtype, np.float64 if Bp is None else Bp.dtype))
            sc = 0.0
            for i in range(len(rr)):
                if Bp is None:
                    tot = tot + m[rr[i], cc[i]]
                    sc += 1.0
                else:
                    for j in range(len(cc)):
                        tot = tot + m[rr[i], cc[j]] * Bp[i, j]
                        sc += abs(Bp[i, j])
            return tot, sc
        if mat == "multi":
            vals = [one(None if Bp is None else Bp.toarray(), None, None) if Bp is not None else (0.0, 0.0) for Bp in B]
            want = np.array([v[0] for v in vals])
            scale = max([v[1] for v in vals] + [1.0])
        elif not batch:
            Bd = B.toarray() if sp.issparse(B) else B
            want, scale = one(Bd, R, C)
        else:
            want = np.zeros(batch, dtype=np.result_type(m.dtype, np.float64 if B is None else B.dtype))
            scale = 1.0
            for p in np.ndindex(*batch):
                w, sc = one(B[p] if matb else B, R[p] if rows == "b" else R, C[p] if cols == "b" else C)
                want[p] = w
                scale = max(scale, sc)
        self.cmp_array(f"{name} mat={mat}{'(batched)' if matb else ''} rows={rows} cols={cols} batch={batch}", r, want,
                       a["s"] * max(scale, 1.0), name)
        self.verify(name, [])
        return True

    # ---- epilogue: storage shared between values shows up when one of them is modified in place
    def epilogue(self):
        null = slice(None, None, None)
        self.cur = {"op": "epilogue"}
        for j, e in enumerate(self.pool):
            if self.stop:
                return
            if e["m"] is None or e["m"].size == 0:
                continue
            # the same object may legitimately sit in the pool once only
            if any(o is not e and o["d"] is e["d"] for o in self.pool):
                self.bad("aliasing:same_object", f"value #{j}: an operation returned one of its operands itself")
                self.stop = True
                return
            for axis in (0, 1):        # zero row 0 (touches the u vectors), then column 0 (touches the v vectors)
                self.step = f"epilogue[{j}].{'row' if axis == 0 else 'col'}"
                key = (0, null) if axis == 0 else (null, 0)

                def run(d=e["d"], key=key):
                    d[key[0], key[1]] = 0.0
                if self.pm("dyad[0, :] = 0" if axis == 0 else "dyad[:, 0] = 0", run) is _FAIL:
                    self.stop = True
                    return
                mm = e["m"].copy()
                mm[key] = 0
                e["m"] = mm
                for i, o in enumerate(self.pool):
                    if o is e:
                        ok = self.check_entry(o, "setitem:rows" if axis == 0 else "setitem:cols",
                                              f"value #{j} after zeroing {'row' if axis == 0 else 'column'} 0")
                    else:
                        ok = self.check_entry(o, "aliasing:shared_storage",
                                              f"value #{i} changed when {'row' if axis == 0 else 'column'} 0 of value "
                                              f"#{j} was zeroed")
                    if not ok:
                        return

    # ---- driver
    def execute(self):
        table = {"new": self.op_new, "addsub": self.op_addsub, "inplace": self.op_inplace, "add_dyad": self.op_add_dyad,
                 "unary": self.op_unary, "mul": self.op_mul, "matmul": self.op_matmul, "getitem": self.op_getitem,
                 "setitem": self.op_setitem, "diagonal": self.op_diagonal, "contract": self.op_contract}
        for i, op in enumerate(self.case["init"]):
            self.step, self.cur = f"init[{i}]", op
            e = self.op_new(op)
            if e is not None:
                self.verify("new", [e])
            if self.stop:
                return
        if not self.pool:
            return
        for i, op in enumerate(self.case["ops"]):
            self.step, self.cur = i, op
            name = op["op"]
            if name == "new":
                e = self.op_new(op)
                done = e is not None
                if done:
                    self.verify("new", [e])
            else:
                done = table[name](op)
            if done:
                self.nexec += 1
                self.kinds.add(name if name != "unary" else op["f"])
                self.labels.add(f"op:{name}")
            else:
                self.labels.add(f"skipped:{name}")
            if self.stop:
                return
        self.epilogue()


def check_case(case):
    run = _Run(case)
    run.execute()
    labels = set(run.labels)
    if any(e["m"] is not None and _iscomplex_dtype(e["m"]) for e in run.pool):
        labels.add("complex")
    else:
        labels.add("real_only")
    if run.empty:
        labels.add("empty_involved")
    if run.nexec >= 3 and len(run.kinds) >= 2 and (run.mix or run.empty):
        labels.add("nontrivial")
    labels.add(f"nexec:{min(run.nexec, 12) // 3 * 3}+")
    return sorted(labels), run.V
