"""C07 — LinSolve / Inverse / SystemOfEquations / StaticCondensation satisfy their defining equations (forward only).

Every case is a small program on ONE module object:
  stage 1  response()                      -> defining equations, output shapes, input signal states unchanged
  stage 2  response() again, same inputs   -> same result                                   (bucket C07:repeat:...)
  stage 3  new matrix / rhs in the input signals, response() -> defining equations again    (bucket C07:new_input:...)
A later stage is only judged when the earlier ones passed, so one root cause gives one bucket.
"""
import numpy as np
from hypothesis import strategies as st
from pbt.harness import viol
from pbt.common import SEED, MATRIX_KINDS, COMPLEX_ONLY, make_matrix, rand_unit, make_domain, rel_err

PROPERTY_ID = "C07"
RULE = ("case = module in {LinSolve, Inverse, SystemOfEquations, StaticCondensation} x matrix source in {class "
        "(diag, spd, sym_indef, herm_pd, herm_indef, herm_posdiag_indef, complex_sym, general, upper, lower; real/"
        "complex; cond 10..1000), decoupled (general matrix with Hypothesis-drawn sets of dofs whose row / column / "
        "both are zeroed off the diagonal), pattern (random off-diagonal sparsity pattern, diagonally dominant), fe "
        "(AssembleStiffness/AssemblePoisson on a 2D/3D domain with or without boundary conditions)} x storage in "
        "{dense, csc, csr} x rhs shape (n,),(n,1),(n,k) real/complex, random / dependent columns / zero column / unit "
        "vector x solver override (index into the admissible list: auto, DenseLU, DenseQR, DenseLDL, DenseCholesky, "
        "Diagonal, SparseLU, CG, pre-wrapped LDAWrapper) x true hermitian/symmetric hints x dof roles per dof (free / "
        "prescribed / main, given or complementary, sorted or shuffled index arrays) x second input (same class, new "
        "values). Bulk numbers from default_rng(payload_seed). Non-trivial = n >= 4, matrix not diagonal, and for the "
        "partitioned modules non-empty free and prescribed/main sets. Distinct = sha1 of the canonical case JSON.")
ASSUMPTIONS = [
    "complex right-hand side with a real *sparse* matrix is documented as unsupported (LinSolve raises TypeError): "
    "generated in part of the cases with the oracle 'TypeError / NotImplementedError or a correct solution'",
    "matrices are non-singular with bounded condition number by construction (<= ~1e3; the free block A_ff of the "
    "partitioned modules is checked: cases with cond(A_ff) > 1e6 are labelled inconclusive_cond and not judged)",
    "solver overrides are only combined with matrix classes the solver documents (Cholesky: Hermitian; LDL: Hermitian "
    "or symmetric; Diagonal: diagonal; CG: Hermitian positive definite, cond <= 100, no all-zero rhs column; SparseLU: "
    "sparse; DenseLU/QR: dense). CG is used with LinSolve and SystemOfEquations only",
    "hermitian= / symmetric= hints are only given when true; the matrix put in the signal for stage 3 is of the same "
    "class, size, storage format and sparsity pattern as the first one (LinSolve caches its class detection)",
    "dense ndarray inputs to SystemOfEquations and StaticCondensation are generated because both docstrings say "
    "'dense or sparse matrix'",
    "trusted: numpy.linalg (solve, cond, norm), pyMOTO assembly modules (C08) for the FE matrices",
]

TOL_BE = 1e-10          # normwise backward error, direct solvers
TOL_CG = 20 * 1e-7      # column-wise relative residual for CG(tol=1e-7)
TOL_SAME = 1e-6         # stage 2 result vs stage 1 result (relative, max norm)
TOL_SCHUR = 1e-9

MODULES = ["LinSolve", "Inverse", "SystemOfEquations", "StaticCondensation"]


def budget(tier):
    return {"examples": 10000 if tier == "quick" else 150000, "shards": 16, "shrink": 300 if tier == "quick" else 1500}


# ----------------------------------------------------------------------------------------------------------------
def strategy(tier):
    big = tier != "quick"
    nmax = 14 if big else 10

    @st.composite
    def case(draw):
        module = draw(st.sampled_from(["LinSolve", "LinSolve", "Inverse", "SystemOfEquations", "SystemOfEquations",
                                       "StaticCondensation", "StaticCondensation"]))
        src = draw(st.sampled_from(["class", "class", "decoupled", "pattern", "fe"]))
        if module == "Inverse":
            src = draw(st.sampled_from(["class", "class", "decoupled", "pattern"]))
        fmt = "dense" if module == "Inverse" else draw(st.sampled_from(["dense", "csc", "csr", "csc"]))
        if module == "LinSolve" and fmt != "dense" and draw(st.integers(0, 3)) == 0:
            # other scipy storage formats (LinSolve only: the partitioned modules index the matrix, which these formats
            # do not support); "dia0" stores the main diagonal first (as sps.diags([main, low, upp], [0, -1, 1]) does)
            fmt = draw(st.sampled_from(["coo", "dia", "dia0", "lil"]))
        c = {"module": module, "src": src, "fmt": fmt, "cplx": draw(st.booleans()),
             "cond": draw(st.sampled_from([10.0, 100.0, 1000.0])), "payload_seed": draw(SEED)}
        if src == "fe":
            dim = draw(st.sampled_from([2, 2, 3]))
            if dim == 2:
                m = 5 if big else 4
                nel = [draw(st.integers(1, m)), draw(st.integers(1, m)), 0]
            else:
                nel = [draw(st.integers(1, 2)), draw(st.integers(1, 2)), draw(st.integers(1, 2))]
            c["dom"] = {"nel": nel, "unit": [draw(st.sampled_from([1.0, 0.5, 2.0])) for _ in range(3)]}
            c["phys"] = draw(st.sampled_from(["elast", "poisson"]))
            c["bc_in_matrix"] = draw(st.booleans())
            c["bc_side"] = draw(st.integers(0, 5))
            c["bc_extra"] = draw(st.integers(0, 3))
            c["bcdiag"] = draw(st.sampled_from([None, 1.0, 7.5]))
            c["part_seed"] = draw(st.integers(0, 50))
            c["main_count"] = draw(st.integers(1, 4))
        else:
            n = draw(st.integers(1 if module in ("LinSolve", "Inverse") else 2, nmax))
            c["n"] = n
            if src == "class":
                c["kind"] = draw(st.sampled_from(MATRIX_KINDS + ["herm_tinydiag_indef"]))
            elif src == "decoupled":
                # per dof: 0 coupled, 1 row zeroed, 2 column zeroed, 3 both (= Dirichlet-style)
                c["dec"] = draw(st.lists(st.sampled_from([0, 0, 1, 2, 3]), min_size=n, max_size=n))
            else:
                c["density"] = draw(st.sampled_from([0.15, 0.3, 0.6]))
                c["sympat"] = draw(st.booleans())
            if module in ("SystemOfEquations", "StaticCondensation"):
                # role per dof: 0 free, 1 prescribed (SoE) / main (SC), 2 other (SC only: prescribed to zero)
                top = 1 if module == "SystemOfEquations" else 2
                roles = draw(st.lists(st.integers(0, top), min_size=n, max_size=n))
                if 0 not in roles:
                    roles[0] = 0
                if 1 not in roles:
                    roles[-1] = 1
                c["roles"] = roles
        c["rhs"] = {"shape": draw(st.sampled_from(["vec", "col", "block"])), "k": draw(st.integers(2, 4)),
                    "cplx": draw(st.booleans()), "cplx2": draw(st.booleans()),
                    "variant": draw(st.sampled_from(["random", "random", "dependent", "zerocol", "unit", "colscales"]))}
        c["solver_idx"] = draw(st.sampled_from([0, 0, 0, 0, 1, 2, 3, 4, 5, 6, 7]))
        c["hint"] = draw(st.sampled_from([None, None, "hermitian", "symmetric"]))
        # documented LinSolve option dep_tol (accepted; must not change the solution)
        c["dep_tol"] = draw(st.sampled_from([None, None, 1e-12, 1e-9]))
        c["try_refused"] = draw(st.sampled_from([False, False, True]))   # real sparse matrix with a complex right-hand side
        c["ascale"] = draw(st.sampled_from([1.0, 1.0, 1.0, 1e-9, 1e-12, 1e6]))    # overall scale of a non-FE matrix
        if module in ("SystemOfEquations", "StaticCondensation"):
            c["give"] = draw(st.sampled_from(["both", "free", "prescribed"]))
            c["order"] = draw(st.sampled_from(["sorted", "sorted", "shuffled"]))
        c["second"] = draw(st.sampled_from(["newA", "newAb", "newb"]))
        return c
    return case()


def nontrivial(labels):
    return "n>=4" in labels and "nondiagonal" in labels and "partition_ok" in labels and "judged" in labels


# ----------------------------------------------------------------------------------------------------------------
# matrix construction (dense ndarray + description); storage conversion happens later
def _sym_class(A):
    """(is_symmetric A==A^T, is_hermitian A==A^H) exactly as constructed (tolerance far below pyMOTO's allclose)."""
    s = np.max(np.abs(A), initial=0.0) * 1e-13
    return bool(np.max(np.abs(A - A.T), initial=0.0) <= s), bool(np.max(np.abs(A - A.conj().T), initial=0.0) <= s)


def _block_matrix(kind, n, rng, cplx, cond, fidx):
    """Matrix of class `kind` whose principal block on fidx is a well-conditioned member of the class."""
    ridx = np.setdiff1d(np.arange(n), fidx)
    nf, nr = len(fidx), len(ridx)
    cplx = cplx or kind in COMPLEX_ONLY
    A = np.zeros((n, n), dtype=complex if cplx else float)
    A[np.ix_(fidx, fidx)] = make_matrix(kind, nf, rng, cplx, cond)
    if nr:
        A[np.ix_(ridx, ridx)] = make_matrix(kind, nr, rng, cplx, cond)
        C = rand_unit(rng, (nf, nr), cplx) * (1.5 / np.sqrt(n))
        A[np.ix_(fidx, ridx)] = C
        if kind == "complex_sym":
            A[np.ix_(ridx, fidx)] = C.T
        elif kind in ("sym_indef", "herm_indef", "herm_posdiag_indef", "herm_tinydiag_indef"):   # Hermitian classes
            A[np.ix_(ridx, fidx)] = C.conj().T
        else:
            A[np.ix_(ridx, fidx)] = rand_unit(rng, (nr, nf), cplx) * (1.5 / np.sqrt(n))
    return A


def _decoupled_matrix(n, rng, cplx, dec):
    A = make_matrix("general", n, rng, cplx, 10.0)
    for i, d in enumerate(dec):
        keep = A[i, i]
        if d in (1, 3):
            A[i, :] = 0
        if d in (2, 3):
            A[:, i] = 0
        A[i, i] = keep
    # restore a bounded condition number by strengthening the diagonal (keeps the zero structure)
    s = np.linalg.norm(A, 2) if n else 1.0
    for _ in range(60):
        dg = np.diag(A).copy()
        if np.all(np.abs(dg) > 0) and np.linalg.cond(A) <= 1e3:
            break
        ph = np.where(np.abs(dg) > 0, dg / np.where(np.abs(dg) > 0, np.abs(dg), 1), 1.0)
        A[np.diag_indices(n)] = dg + ph * 0.5 * max(s, 1.0)
    return A


def _pattern_matrix(n, rng, cplx, density, sympat):
    mask = rng.random((n, n)) < density
    if sympat:
        mask = np.triu(mask, 1)
        mask = mask | mask.T
    np.fill_diagonal(mask, False)
    A = rand_unit(rng, (n, n), cplx) * mask
    if sympat and rng.random() < 0.5:
        A = 0.5 * (A + A.T)            # symmetric values as well
    rs = np.abs(A).sum(axis=1) + np.abs(A).sum(axis=0)
    sg = np.where(rng.random(n) < 0.5, -1.0, 1.0)
    d = sg * (0.5 * rs * (1.1 + rng.random(n)) + 0.3 + rng.random(n))
    return A + np.diag(d)


def _partition_from_roles(roles, module):
    roles = np.asarray(roles)
    f = np.flatnonzero(roles == 0)
    m = np.flatnonzero(roles == 1)
    return f, m


def _fe_build(case, rng):
    """FE matrix (as assembled by pymoto, sparse), and a natural dof partition."""
    import pymoto as pym
    import scipy.sparse as sps
    dom = make_domain(case["dom"])
    ndof = dom.dim if case["phys"] == "elast" else 1
    n = ndof * dom.nnodes
    from pbt.props.c11_eigensolve import _side_nodes
    nodes = _side_nodes(dom, case["bc_side"])
    side = np.concatenate([nodes * ndof + d for d in range(ndof)])
    rest = np.setdiff1d(np.arange(n), side)
    ne = min(case["bc_extra"], max(len(rest) - 2, 0))
    bc = np.unique(np.concatenate([side, rng.choice(rest, size=ne, replace=False)])) if ne else np.unique(side)
    mt = {"csr": sps.csr_matrix}.get(case["fmt"], sps.csc_matrix)
    kw = {"domain": dom, "matrix_type": mt}
    if case["bc_in_matrix"] or case["module"] == "LinSolve":      # LinSolve needs a non-singular matrix
        kw["bc"] = bc
        if case["bcdiag"] is not None:
            kw["bcdiagval"] = case["bcdiag"]
    emod = (1.0 + 0.3j) if (case["cplx"] and case["phys"] == "elast") else 1.0

    def assemble(x):
        s = pym.Signal("x", x)
        if case["phys"] == "elast":
            m = pym.AssembleStiffness(s, e_modulus=emod, **kw)
        else:
            m = pym.AssemblePoisson(s, **kw)
        m.response()
        return m.sig_out[0].state
    x1 = 0.1 + 0.9 * rng.random(dom.nel)
    x2 = 0.1 + 0.9 * rng.random(dom.nel)
    return assemble(x1), assemble(x2), n, bc


# ----------------------------------------------------------------------------------------------------------------
def _to_fmt(A, fmt):
    import scipy.sparse as sps
    if fmt == "dense":
        return np.array(A.todense()) if sps.issparse(A) else np.array(A)
    if fmt in ("dia", "dia0"):
        d = sps.dia_matrix(A)
        if fmt == "dia0" and 0 in d.offsets:
            order = np.argsort(d.offsets != 0, kind="stable")        # offset 0 first, the others in their order
            d = sps.dia_matrix((d.data[order], d.offsets[order]), shape=d.shape)
        return d
    f = {"csc": sps.csc_matrix, "csr": sps.csr_matrix, "coo": sps.coo_matrix, "lil": sps.lil_matrix}[fmt]
    return f(A)


def _dense(A):
    import scipy.sparse as sps
    return np.asarray(A.todense()) if sps.issparse(A) else np.asarray(A)


def _snap(s):
    import scipy.sparse as sps
    if sps.issparse(s):
        if s.format not in ("csr", "csc"):      # coo / dia / lil: compared through a canonical copy
            c = s.tocsr()
            return ("spx", type(s), s.shape, c.data.copy(), c.indices.copy(), c.indptr.copy())
        return ("sp", type(s), s.shape, s.data.copy(), s.indices.copy(), s.indptr.copy())
    return ("nd", type(s), np.array(s, copy=True))


def _same_snap(snap, s):
    import scipy.sparse as sps
    if snap[0] == "spx":
        if not (sps.issparse(s) and type(s) is snap[1] and s.shape == snap[2]):
            return False
        c = s.tocsr()
        return (np.array_equal(c.data, snap[3]) and np.array_equal(c.indices, snap[4])
                and np.array_equal(c.indptr, snap[5]))
    if snap[0] == "sp":
        return (sps.issparse(s) and type(s) is snap[1] and s.shape == snap[2] and np.array_equal(s.data, snap[3])
                and np.array_equal(s.indices, snap[4]) and np.array_equal(s.indptr, snap[5]))
    return type(s) is snap[1] and np.shape(s) == snap[2].shape and np.array_equal(np.asarray(s), snap[2])


def _rhs(rng, n, spec, cplx, allow_zero=True):
    shape = {"vec": (n,), "col": (n, 1), "block": (n, spec["k"])}[spec["shape"]]
    b = rand_unit(rng, shape, cplx)
    v = spec["variant"]
    if v == "unit" and n > 0:
        b = np.zeros(shape, dtype=b.dtype)
        b[int(rng.integers(0, n)), ...] = 1.0
    if b.ndim == 2 and b.shape[1] >= 2 and n > 0:
        if v == "dependent":
            b[:, -1] = 2.0 * b[:, 0] - (0.5 * b[:, 1] if b.shape[1] > 2 else 0.0)
        elif v == "zerocol" and allow_zero:
            b[:, 0] = 0.0
        elif v == "colscales":     # load cases of very different magnitude; every column is a system of its own
            b = b * np.array([1.0, 1e-9, 1e6, 1e-4][:b.shape[1]] + [1.0] * max(0, b.shape[1] - 4))[None, :]
    return b


def _scale_same_class(A, rng, sym, herm):
    """New matrix of the same class, size and pattern: D1 A D2 (congruence D A D for symmetric / Hermitian)."""
    n = A.shape[0]
    d1 = 0.6 + 0.9 * rng.random(n)
    d2 = d1 if (sym or herm) else 0.6 + 0.9 * rng.random(n)
    return (d1[:, None] * A) * d2[None, :]


def _be(A, x, b):
    """Normwise backward error |A x - b| / (|A||x| + |b|) (Frobenius)."""
    # judged column by column: each right-hand side is a system of its own (a tiny load case next to a large one must be
    # solved as accurately as the large one)
    x2, b2 = np.asarray(x).reshape(len(x), -1), np.asarray(b).reshape(len(b), -1)
    if x2.shape[1] != b2.shape[1]:
        return np.inf
    nA = np.linalg.norm(A)
    worst = 0.0
    for k in range(b2.shape[1]):
        r = np.linalg.norm(A @ x2[:, k] - b2[:, k])
        den = nA * np.linalg.norm(x2[:, k]) + np.linalg.norm(b2[:, k])
        if not np.isfinite(r):
            return np.inf
        e = 0.0 if r == 0 else (float(r / den) if den > 0 else np.inf)
        worst = max(worst, e)
    return worst


def _col_relres(A, x, b):
    x2, b2 = (x.reshape(len(x), -1), b.reshape(len(b), -1))
    r = np.linalg.norm(A @ x2 - b2, axis=0)
    nb = np.linalg.norm(b2, axis=0)
    out = np.where(nb > 0, r / np.where(nb > 0, nb, 1.0), np.where(r == 0, 0.0, np.inf))
    return float(np.max(out, initial=0.0)) if np.all(np.isfinite(out)) else np.inf


def _coldecoupled(A):
    """Structural class of LDAWrapper's shortcut: a dof with non-zero diagonal whose column is otherwise empty but
    whose row is not."""
    nz = A != 0
    d = np.diag(nz)
    col1 = nz.sum(axis=0) <= 1
    row1 = nz.sum(axis=1) <= 1
    return bool(np.any(d & col1 & ~row1))


def _solver_options(pym, A, fmt, sym, herm, pd_kind, isdiag, cond, module):
    """Admissible overrides for this matrix (name, factory); index 0 = automatic."""
    S = pym.solvers
    opts = [("auto", lambda: None)]
    if fmt == "dense":
        opts += [("DenseLU", lambda: S.SolverDenseLU()), ("DenseQR", lambda: S.SolverDenseQR())]
        if module != "StaticCondensation":       # StaticCondensation switches the LDA wrapper off on purpose
            opts.append(("LDA_DenseLU", lambda: S.LDAWrapper(S.SolverDenseLU())))
        if herm or sym:
            opts.append(("DenseLDL", lambda: S.SolverDenseLDL()))
        if herm and np.all(np.real(np.diag(A)) > 0):
            opts.append(("DenseCholesky", lambda: S.SolverDenseCholesky()))
    else:
        opts.append(("SparseLU", lambda: S.SolverSparseLU()))
        if module != "StaticCondensation":
            opts.append(("LDA_SparseLU", lambda: S.LDAWrapper(S.SolverSparseLU())))
    if isdiag:
        opts.append(("Diagonal", lambda: S.SolverDiagonal()))
    if pd_kind and cond <= 100.0 and module in ("LinSolve", "SystemOfEquations"):
        opts.append(("CG", lambda: S.CG(tol=1e-7)))
    return opts


# ----------------------------------------------------------------------------------------------------------------
def check_case(case):
    import pymoto as pym
    rng = np.random.default_rng(case["payload_seed"])
    module, src, fmt = case["module"], case["src"], case["fmt"]
    labels = [module, f"src_{src}", fmt]
    V = []
    # ---- matrix and partition -------------------------------------------------------------------------------
    f_idx = m_idx = None
    pd_kind = False
    if src == "fe":
        K1, K2, n, bc = _fe_build(case, rng)
        A1, A2 = _dense(K1), _dense(K2)
        pd_kind = not np.iscomplexobj(A1)     # K with bc, or its free block, is symmetric positive definite
        if module == "SystemOfEquations":
            p_idx = bc
            f_idx = np.setdiff1d(np.arange(n), p_idx)
            m_idx = p_idx
        elif module == "StaticCondensation":
            cand = np.setdiff1d(np.arange(n), bc)
            prng = np.random.default_rng(case["part_seed"])
            nm = min(case["main_count"], max(len(cand) - 1, 1))
            m_idx = np.sort(prng.choice(cand, size=nm, replace=False))
            f_idx = np.setdiff1d(cand, m_idx)
        cond = 100.0
    else:
        n = case["n"]
        cplx = case["cplx"]
        cond = case["cond"]
        if module in ("SystemOfEquations", "StaticCondensation"):
            f_idx, m_idx = _partition_from_roles(case["roles"], module)
        if src == "class":
            kind = case["kind"]
            labels.append(kind)
            pd_kind = kind in ("spd", "herm_pd")
            if kind in ("upper", "lower"):
                cond = 1000.0    # common.make_matrix shrinks the off-diagonal part until cond is met: with a small
                #                  bound it becomes ~1e-9, which pyMOTO's allclose-based detection calls 'diagonal'
            if f_idx is not None and len(f_idx) and kind not in ("diag", "spd", "herm_pd", "upper", "lower"):
                A1 = _block_matrix(kind, n, rng, cplx, cond, f_idx)
            else:
                A1 = make_matrix(kind, n, rng, cplx, cond)
        elif src == "decoupled":
            A1 = _decoupled_matrix(n, rng, cplx, case["dec"])
        else:
            A1 = _pattern_matrix(n, rng, cplx, case["density"], case["sympat"])
        A2 = None
        # (LinSolve / Inverse only: in the partitioned modules the O(1) prescribed values and loads would no longer be
        # commensurate with the scaled matrix, and the 1e-10 backward-error bound is then missed by a factor 2-4 on the
        # unchanged tree -- conditioning of the problem, not the subject of this check)
        asc = float(case.get("ascale", 1.0)) if module in ("LinSolve", "Inverse") else 1.0
        if asc != 1.0:
            A1 = A1 * asc           # the same system in other units: class and conditioning are scale invariant
            labels.append(f"matrix_scale_{asc:g}")
    sym, herm = _sym_class(A1)
    cplxA = bool(np.iscomplexobj(A1))
    off = A1 - np.diag(np.diag(A1))
    isdiag = bool(np.count_nonzero(off) == 0)
    if not isdiag and np.max(np.abs(off)) < 1e-3 * np.max(np.abs(A1)):
        # numerically (but not exactly) diagonal: pyMOTO's class detection is tolerance based by design
        labels.append("skipped_near_diagonal")
        return labels, []
    labels.append("complexA" if cplxA else "realA")
    if n >= 4:
        labels.append("n>=4")
    if not isdiag:
        labels.append("nondiagonal")
    labels.append("hermitian" if herm else ("symmetric" if sym else "nonsymmetric"))
    sparse = fmt != "dense"
    # ---- partitions -----------------------------------------------------------------------------------------
    if module in ("SystemOfEquations", "StaticCondensation"):
        if len(f_idx) == 0 or len(m_idx) == 0:
            labels.append("skipped_empty_partition")
            return labels, []
        if case["order"] == "shuffled":
            prng = np.random.default_rng(case["payload_seed"] + 7)
            f_idx, m_idx = prng.permutation(f_idx), prng.permutation(m_idx)
            labels.append("shuffled")
        sub = A1[np.ix_(f_idx, f_idx)]
        if len(f_idx) + len(m_idx) < n:
            labels.append("other_dofs")
    else:
        sub = A1
    sub_sym, sub_herm = _sym_class(sub)
    if A2 is None:      # second matrix: same class (also of the block that is factorised), size and pattern
        A2 = _scale_same_class(A1, rng, sym or sub_sym, herm or sub_herm)
    if module in ("SystemOfEquations", "StaticCondensation"):
        if not (np.linalg.cond(sub) <= 1e6 and np.linalg.cond(A2[np.ix_(f_idx, f_idx)]) <= 1e6):
            labels.append("inconclusive_cond")
            return labels, []
    labels.append("partition_ok")
    coldec = module != "Inverse" and _coldecoupled(sub)
    if coldec:
        labels.append("rowcoupled_coldecoupled")
    # ---- solver override / hints ----------------------------------------------------------------------------
    base_kwargs = {}
    sname, fac = "auto", (lambda: None)
    if module != "Inverse":
        sub_isdiag = bool(np.count_nonzero(sub - np.diag(np.diag(sub))) == 0)
        opts = _solver_options(pym, sub, fmt, sub_sym, sub_herm, pd_kind and sub_herm, sub_isdiag, cond, module)
        sname, fac = opts[case["solver_idx"] % len(opts)]
        if case["hint"] == "hermitian" and sub_herm:
            base_kwargs["hermitian"] = True
            labels.append("hint")
        elif case["hint"] == "symmetric" and sub_sym:
            base_kwargs["symmetric"] = True
            labels.append("hint")
    dep_tol = case.get("dep_tol") if module in ("LinSolve", "SystemOfEquations") else None
    if dep_tol is not None:
        base_kwargs["dep_tol"] = dep_tol
        labels.append(f"dep_tol_{dep_tol:g}")
    labels.append(f"solver_{sname}")
    iscg = sname == "CG"
    # ---- right-hand sides -----------------------------------------------------------------------------------
    spec = case["rhs"]
    rc = bool(spec["cplx"]) and not (sparse and not cplxA)       # documented exclusion
    rc2 = bool(spec["cplx2"]) and not (sparse and not cplxA)
    # ... which is nevertheless tried in part of the cases: the admissible outcomes are the documented TypeError or
    # a solution that satisfies the defining equations (never a returned x with A x != b)
    try_refused = (bool(case.get("try_refused")) and sparse and not cplxA and bool(spec["cplx"])
                   and module in ("LinSolve", "SystemOfEquations"))
    if try_refused:
        rc = True
        labels.append("real_sparse_complex_rhs")
    if module in ("LinSolve", "SystemOfEquations"):
        labels.append(f"rhs_{spec['shape']}")
        labels.append("rhs_complex" if (rc or (rc2 and module == "SystemOfEquations")) else "rhs_real")
    fmtc = "dense" if not sparse else "sparse"
    info = (f"src={src} kind={case.get('kind')} n={n} fmt={fmt} solver={sname} hint={case['hint']} "
            f"rhs={spec['shape']}/{'c' if rc else 'r'}")

    dense_partitioned = (not sparse) and module in ("SystemOfEquations", "StaticCondensation")

    def bucket(claim):
        """One bucket per (sub-claim, module, structural class the sub-claim is sensitive to)."""
        if claim == "complex_rhs_dropped":
            return f"C07:complex_rhs_dropped:{module}"
        if dense_partitioned:
            # both modules document 'dense or sparse matrix' but use sparse-only operations (`*` as matrix product,
            # `.todense()`): everything that goes wrong with an ndarray matrix is one root cause per module
            return f"C07:dense_matrix:{module}"
        if claim in ("Ax=b", "Ax=b_free_rows") and coldec:
            v = "rowcoupled_coldecoupled"
        elif claim == "Ax=b_prescribed_rows" and not sym:
            v = "A!=A^T"
        else:
            v = fmtc
        return f"C07:{claim}:{module}:{v}"

    # LinSolve wraps its solver in LDAWrapper (residual tolerance 1e-7 per column, relative to that column's norm): a
    # column whose non-trivial part is below 1e-7 of its norm (possible with the widely scaled columns of variant
    # "colscales", e.g. a load dominated by a decoupled dof) is legitimately accepted without an inner solve. For
    # that variant the solve claims are judged at 1e-6 instead of 1e-10 (a dropped or wrong column is O(1) off).
    # (The documented dep_tol option is drawn but, as of this commit, LinSolve stores it without handing it to the
    # wrapper, so no tighter bound can be demanded when it is given.)
    tol_sys = 1e-6 if case["rhs"]["variant"] == "colscales" else TOL_BE

    # ---- judge functions: return list of (claim, detail) ----------------------------------------------------
    def judge_linsolve(A, b, x):
        x = np.asarray(x)
        if x.shape != b.shape:
            return [("shape", f"x.shape {x.shape} != b.shape {b.shape}")]
        if not np.all(np.isfinite(x)):
            return [("Ax=b", "non-finite solution")]
        if iscg:
            e = _col_relres(A, x, b)
            return [("Ax=b", f"CG column-wise relative residual {e:.3e} > {TOL_CG:.1e}")] if e > TOL_CG else []
        e = _be(A, x, b)
        if e > tol_sys:
            return [("Ax=b", f"backward error |Ax-b|/(|A||x|+|b|) = {e:.3e}; x={np.array2string(x, precision=4)[:160]}")]
        return []

    def judge_inverse(A, Bm):
        Bm = np.asarray(Bm)
        if Bm.shape != A.shape:
            return [("shape", f"B.shape {Bm.shape}")]
        r = np.linalg.norm(A @ Bm - np.eye(A.shape[0]))
        e = r / (np.linalg.norm(A) * np.linalg.norm(Bm) + np.sqrt(A.shape[0]))
        return [("AB=I", f"|AB-I|/(|A||B|+|I|) = {e:.3e}")] if not (e <= TOL_BE) else []

    def judge_soe(A, bf, xp, x, bb):
        f, p = f_idx, m_idx
        out = []
        x, bb = np.asarray(x), np.asarray(bb)
        want = (A.shape[0],) + bf.shape[1:]
        if x.shape != want or bb.shape != want:
            return [("shape", f"x{x.shape} b{bb.shape}, expected {want}")]
        if not (np.all(np.isfinite(x)) and np.all(np.isfinite(bb))):
            return [("Ax=b_free_rows", "non-finite output")]
        if (np.iscomplexobj(bf) or np.iscomplexobj(xp)) and not (np.iscomplexobj(x) and np.iscomplexobj(bb)):
            # the imaginary part of the data cannot be represented in the outputs: every equation is off; one cause
            return [("complex_rhs_dropped", f"complex b_f/x_p but outputs have dtypes x:{x.dtype} b:{bb.dtype} "
                                            f"(x[p] differs from x_p by {rel_err(x[p, ...], xp):.3e}, b[f] from b_f by "
                                            f"{rel_err(bb[f, ...], bf):.3e})")]
        if rel_err(x[p, ...], xp) > 1e-14:
            out.append(("x_p", f"x[prescribed] differs from x_p by {rel_err(x[p, ...], xp):.3e}"))
        if rel_err(bb[f, ...], bf) > 1e-14:
            out.append(("b_f", f"b[free] differs from b_f by {rel_err(bb[f, ...], bf):.3e}"))
        if iscg:
            beff = bb[f, ...] - A[np.ix_(f, p)] @ x[p, ...]
            e = _col_relres(A[np.ix_(f, f)], x[f, ...], beff)
            if e > TOL_CG:
                out.append(("Ax=b_free_rows", f"CG relative residual of the free rows {e:.3e}"))
        else:
            e = _be(A[f, :], x, bb[f, ...])
            if e > tol_sys:
                out.append(("Ax=b_free_rows", f"backward error of rows 'free' of A x = b: {e:.3e}"))
        e = _be(A[p, :], x, bb[p, ...])
        if e > TOL_BE:
            out.append(("Ax=b_prescribed_rows", f"backward error of rows 'prescribed' of A x = b: {e:.3e} "
                                                f"(b_p must equal A_pf x_f + A_pp x_p)"))
        return out

    def judge_sc(A, Ared):
        f, m = f_idx, m_idx
        Ared = np.asarray(Ared)
        nm = len(m)
        if Ared.shape != (nm, nm):
            return [("shape", f"Ared.shape {Ared.shape}, expected {(nm, nm)}")]
        if not np.all(np.isfinite(Ared)):
            return [("schur", "non-finite output")]
        Amm, Amf = A[np.ix_(m, m)], A[np.ix_(m, f)]
        X = np.linalg.solve(A[np.ix_(f, f)], A[np.ix_(f, m)])
        S = Amm - Amf @ X
        sc = np.linalg.norm(Amm) + np.linalg.norm(Amf) * np.linalg.norm(X)
        e = np.linalg.norm(Ared - S) / sc
        out = []
        if e > TOL_SCHUR:
            out.append(("schur", f"|Ared - (A_mm - A_mf A_ff^-1 A_fm)| / scale = {e:.3e}"))
        # condensed system reproduces the main-dof response of the full system (prescribed dofs zero, load on main)
        mf = np.concatenate([m, f])
        Afull = A[np.ix_(mf, mf)]
        if np.linalg.cond(Afull) <= 1e6 and np.linalg.cond(S) <= 1e6:
            brng = np.random.default_rng(case["payload_seed"] + 11)
            bm = rand_unit(brng, (nm,), np.iscomplexobj(A))
            xfull = np.linalg.solve(Afull, np.concatenate([bm, np.zeros(len(f), dtype=bm.dtype)]))
            xc = np.linalg.solve(Ared, bm)
            if rel_err(xc, xfull[:nm]) > 1e-7:
                out.append(("condensed_solve", f"condensed solve differs from full solve on main dofs by "
                                               f"{rel_err(xc, xfull[:nm]):.3e}"))
            if "condensed_checked" not in labels:
                labels.append("condensed_checked")
        return out

    def judge(Aref, states, outs):
        if module == "LinSolve":
            return judge_linsolve(Aref, states[1], outs[0])
        if module == "Inverse":
            return judge_inverse(Aref, outs[0])
        if module == "SystemOfEquations":
            return judge_soe(Aref, states[1], states[2], outs[0], outs[1])
        return judge_sc(Aref, outs[0])

    # ---- input data -----------------------------------------------------------------------------------------
    M1, M2 = _to_fmt(K1 if src == "fe" else A1, fmt), _to_fmt(K2 if src == "fe" else A2, fmt)
    st1, st2 = [M1], [M2]
    part_kwargs = {}
    if module == "LinSolve":
        st1.append(_rhs(rng, n, spec, rc, allow_zero=not iscg))
        st2.append(_rhs(rng, n, spec, rc, allow_zero=not iscg))
    elif module == "SystemOfEquations":
        nf, npp = len(f_idx), len(m_idx)
        sp2 = dict(spec, variant="random")
        for st_ in (st1, st2):
            st_.append(_rhs(rng, nf, spec, rc, allow_zero=not iscg))
            st_.append(_rhs(rng, npp, sp2, rc2))
        if case["give"] == "free":          # the module computes the complement itself: sorted
            m_idx = np.sort(m_idx)
            part_kwargs["free"] = f_idx
        elif case["give"] == "prescribed":
            f_idx = np.sort(f_idx)
            part_kwargs["prescribed"] = m_idx
        else:
            part_kwargs["free"], part_kwargs["prescribed"] = f_idx, m_idx
        labels.append(f"give_{case['give']}")
    elif module == "StaticCondensation":
        part_kwargs["free"], part_kwargs["main"] = f_idx, m_idx
    labels.append("judged")

    def make_module(states):
        kw = dict(base_kwargs)
        kw.update({k: np.array(v, copy=True) for k, v in part_kwargs.items()})
        sol = fac()
        if sol is not None:
            kw["solver"] = sol
        sigs = [pym.Signal(f"in{i}", s) for i, s in enumerate(states)]
        return getattr(pym, module)(sigs, **kw), sigs

    def run(mod, sigs):
        """-> (exception or None, outputs or None); narrow try/except around the code under test"""
        try:
            mod.response()
            return None, [s.state for s in mod.sig_out]
        except Exception as e:
            return e, None

    def exc_text(e):
        return f"{type(e).__name__}: {str(e).splitlines()[0][:300] if str(e) else ''}"

    # ---- stage 1 --------------------------------------------------------------------------------------------
    try:
        mod, sigs = make_module(st1)
    except Exception as e:
        V.append(viol(f"C07:raises:{module}:{fmtc}:init:{type(e).__name__}", f"{exc_text(e)} | {info}"))
        return labels, V
    snaps = [_snap(s) for s in st1]
    exc, out1 = run(mod, sigs)
    if try_refused and isinstance(exc, (TypeError, NotImplementedError)):
        labels.append("documented_refusal")
        return labels, V
    if exc is not None:
        b = bucket("raises") if dense_partitioned else f"C07:raises:{module}:{fmtc}:{type(exc).__name__}"
        V.append(viol(b, f"[stage 1] response() raises {exc_text(exc)} | {info}"))
        return labels, V
    res = judge(A1, st1, out1)
    for claim, detail in res:
        V.append(viol(bucket(claim), f"[stage 1] {detail} | {info}"))
    out1 = [np.array(np.asarray(o), copy=True) for o in out1]
    for i, sg in enumerate(sigs):
        if not _same_snap(snaps[i], sg.state):
            now = sg.state
            V.append(viol(f"C07:input_mutated:{module}",
                          f"[stage 1] state of input signal {i} changed by response(): was {type(st1[i]).__name__} "
                          f"{np.shape(st1[i])}, now {type(now).__name__} {np.shape(now)} | {info}"))
            sg.state = st1[i]     # put the caller's data back (as an upstream module would); judge later stages alone
    if res:
        return labels, V
    # ---- stage 2: same inputs, same result ------------------------------------------------------------------
    exc, out2 = run(mod, sigs)
    if exc is not None:
        V.append(viol(f"C07:repeat:{module}:{fmtc}", f"[stage 2] second response() with unchanged inputs raises "
                                                     f"{exc_text(exc)} | {info}"))
        return labels, V
    res = judge(A1, st1, out2)
    if res:
        V.append(viol(f"C07:repeat:{module}:{fmtc}", f"[stage 2] second response() with unchanged inputs: "
                                                     f"{res[0][0]}: {res[0][1]} | {info}"))
        return labels, V
    for o1, o2 in zip(out1, out2):
        d = rel_err(np.asarray(o2), o1)
        if d > (1e-3 if iscg else TOL_SAME):
            V.append(viol(f"C07:repeat:{module}:{fmtc}", f"[stage 2] second response() with unchanged inputs differs "
                                                         f"from the first by {d:.3e} | {info}"))
            return labels, V
    for i, sg in enumerate(sigs):
        if not _same_snap(snaps[i], sg.state):
            sg.state = st1[i]
    # ---- stage 3: new input states on the same module object ------------------------------------------------
    labels.append(f"second_{case['second']}")
    st3 = list(st1)
    A3 = A1
    if case["second"] in ("newA", "newAb") or module in ("Inverse", "StaticCondensation"):
        st3[0], A3 = M2, A2
    if case["second"] in ("newb", "newAb"):
        st3[1:] = st2[1:]
    for sg, s3 in zip(sigs, st3):
        sg.state = s3
    exc, out3 = run(mod, sigs)
    res = judge(A3, st3, out3) if exc is None else [("raises", exc_text(exc))]
    if res:
        # history-dependent, or simply wrong for this input? ask a fresh module object
        modf, sigf = make_module(st3)
        excf, outf = run(modf, sigf)
        resf = judge(A3, st3, outf) if excf is None else None
        if excf is not None:
            b = bucket("raises") if dense_partitioned else f"C07:raises:{module}:{fmtc}:{type(excf).__name__}"
            V.append(viol(b, f"[second input, fresh module] response() raises {exc_text(excf)} | {info}"))
        elif resf:
            for claim, detail in resf:
                V.append(viol(bucket(claim), f"[second input, fresh module] {detail} | {info}"))
        else:
            V.append(viol(f"C07:new_input:{module}:{fmtc}",
                          f"[stage 3] after putting new data in the input signals the same module object gives "
                          f"{res[0][0]}: {res[0][1]} (a fresh module on the same data is correct) | {info}"))
    return labels, V
