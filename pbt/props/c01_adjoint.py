"""C01 — every module's sensitivity is the exact adjoint of its response (DESIGN §3 C01)."""
import traceback
import numpy as np
import scipy.sparse as sps
from hypothesis import strategies as st
from pbt.harness import viol
from pbt.common import SEED
from pbt import adjoint as adj
from pbt.recipes import RECIPES

PROPERTY_ID = "C01"
RULE = ("case = (module recipe, options drawn by Hypothesis, payload_seed for the numeric data). For each case the "
        "module is built, seeded with random seeds of the output's dtype class (incl. partial seeds, dense/DyadCarrier "
        "seeds for sparse outputs) and probed along class-preserving directions: all inputs jointly, each input "
        "separately, and (linear modules) unit-entry seeds/directions. Oracle: Re sum(g*v) vs exact differences "
        "(affine modules, 1e-10) or Richardson-extrapolated central differences with error estimate (1e-6). "
        "Non-trivial = the seeded response really varies along the direction (|d| > 1e-9*scale). Distinct = sha1 of "
        "the case JSON.")
ASSUMPTIONS = [
    "AutoMod needs jax (not installed, not in the wheelhouse): outside the checked module set",
    "seeds have the dtype class of the output (finite_difference convention); directions keep matrices inside their "
    "class (symmetric/Hermitian/triangular/pattern) because LinSolve/EigenSolve cache class flags",
    "differentiability by construction: separated eigenvalues, active-set thresholds away from data, Q>=1 in overhang",
    "NodalOperation/ThermoMechanical/filters/assembly are probed with real data (their documented input)",
    "Scaling in objective mode and AggScaling are probed with frozen scale factors (documented memories)",
    "resolution: a relative sensitivity error below ~1e-6 (non-linear modules) would pass",
]

QUICK = 6000
THOROUGH = 120000


def budget(tier):
    return {"examples": QUICK if tier == "quick" else THOROUGH, "shards": 16, "shrink": 200 if tier == "quick" else 1500}


def strategy(tier):
    names = sorted(RECIPES)

    def one(name):
        return st.fixed_dictionaries({"recipe": st.just(name), "opts": RECIPES[name].opts(tier), "payload_seed": SEED,
                                      # magnitude of the seeds: the adjoint is linear in them, so tiny (1e-10) and
                                      # huge seeds must back-propagate as exactly, relative to their size, as O(1) ones
                                      "seed_scale": st.sampled_from([1.0, 1.0, 1.0, 1.0, 1e-10, 1e-13, 1e8])})
    return st.sampled_from(names).flatmap(one)


def nontrivial(labels):
    return "varies" in labels


def from_pymoto(tb_exc):
    """True if the exception was raised from (or passed through) pymoto code."""
    for fr in traceback.extract_tb(tb_exc.__traceback__):
        if "/pymoto/" in fr.filename.replace("\\", "/"):
            return True
    return False


def exc_site(e):
    fr = [f for f in traceback.extract_tb(e.__traceback__) if "/pymoto/" in f.filename.replace("\\", "/")]
    if not fr:
        return "?"
    f = fr[-1]
    return f"{f.filename.split('/pymoto/')[-1]}:{f.name}"


def shape_ok(g, x):
    if g is None:
        return True
    gs = g.shape if hasattr(g, "shape") else ()
    if sps.issparse(x) or (isinstance(x, np.ndarray) and x.ndim >= 1):
        return tuple(gs) == tuple(x.shape)
    return int(np.prod(gs)) == 1


def check_case(case):
    name = case["recipe"]
    R = RECIPES[name]
    rng = np.random.default_rng(case["payload_seed"])
    labels = [f"recipe:{name}"]
    V = []

    def bad(kind, detail, **kw):
        V.append(viol(f"C01:{kind}", f"{detail} | case={case}", **kw))

    try:
        b = R.build(case["opts"], rng)
    except Exception as e:
        if from_pymoto(e):
            bad(f"raises:construct:{name}:{type(e).__name__}@{exc_site(e)}", traceback.format_exc()[-600:])
            return labels, V
        raise
    labels += b.labels
    if getattr(b, "skip", False):
        labels.append("skipped_illposed")
        return labels, V
    comp = type(b.mod).__name__
    try:
        b.mod.response()
        ys = b.outputs()
    except Exception as e:
        if from_pymoto(e):
            bad(f"raises:response:{comp}:{type(e).__name__}@{exc_site(e)}", traceback.format_exc()[-600:])
            return labels, V
        raise

    nprobe = 2
    for ip in range(nprobe):
        ws = b.seeds(rng, ys)
        if all(w is None for w in ws):
            continue
        ssc = float(case.get("seed_scale", 1.0))
        if ssc != 1.0:
            ws = [None if w is None else w * ssc for w in ws]
            labels.append(f"seed_scale_{ssc:g}")
        try:
            g = adj.analytic(b, ws)
        except Exception as e:
            if from_pymoto(e):
                fns = [f.name for f in traceback.extract_tb(e.__traceback__)]
                via_eigvec = "_sparse_eigvec_sens" in fns and "update" in fns
                singular = "singular" in str(e).lower()
                bucket = (f"raises:sensitivity:{comp}:singular_shifted_matrix" if (via_eigvec and singular) else
                          f"raises:sensitivity:{comp}:{type(e).__name__}@{exc_site(e)}")
                bad(bucket, traceback.format_exc()[-700:],
                    sig={"recipe": name, "singular_factorisation": singular,
                         "via": "_sparse_eigvec_sens/update" if via_eigvec else exc_site(e),
                         "eigvec_seed": bool(len(ws) > 1 and ws[1] is not None)})
                return labels, V
            raise
        for i, (gi, xi) in enumerate(zip(g, b.x)):
            if b.dirs[i] is not None and not shape_ok(gi, xi):
                bad(f"shape:{comp}:in{i}", f"sensitivity shape {getattr(gi, 'shape', ())} for input shape "
                                           f"{getattr(xi, 'shape', ())}")
                return labels, V
        gd = [adj.to_dense(gi) for gi in g]
        # direction sets: all inputs jointly, then each differentiated input on its own
        nin = len(b.dirs)
        sets = [list(range(nin))]
        if nin > 1:
            sets += [[i] for i in range(nin)]
        for S in sets:
            dirs = [b.dirs[i] if (i in S and b.dirs[i] is not None) else None for i in range(nin)]
            if all(d is None for d in dirs):
                continue
            try:
                a = sum(adj.inner(gd[i], dirs[i]) for i in range(nin) if dirs[i] is not None)
                scale = sum(float(np.linalg.norm(np.ravel(gd[i]))) * float(np.linalg.norm(np.ravel(adj.to_dense(dirs[i]))))
                            for i in range(nin) if dirs[i] is not None and gd[i] is not None)
            except adj.ShapeMismatch as e:
                bad(f"shape:{comp}", str(e))
                return labels, V
            try:
                d, err = adj.numeric(b, ws, dirs)
            except Exception as e:
                if from_pymoto(e):
                    bad(f"raises:response_perturbed:{comp}:{type(e).__name__}@{exc_site(e)}",
                        traceback.format_exc()[-600:])
                    return labels, V
                raise
            verdict, rel = adj.compare(a, d, err, scale * 1e-3, b.tol)
            if verdict == "bad" and not b.linear and np.isfinite(d):
                # the Richardson error estimate is not a bound (e.g. x**p with p ~ 50 in the overhang filter): confirm a
                # disagreement at two finer step sizes. A wrong sensitivity keeps |a-d| as h -> 0; a truncation error of
                # the differences shrinks.
                h0 = b.h
                gaps = [abs(a - d)]
                try:
                    for f in (0.25, 0.0625):
                        b.h = h0 * f
                        d2, e2 = adj.numeric(b, ws, dirs)
                        gaps.append(abs(a - d2))
                        v2, rel2 = adj.compare(a, d2, e2, scale * 1e-3, b.tol)
                        if v2 != "bad":
                            verdict, rel = "inconclusive", rel2
                            break
                    else:
                        if gaps[2] < 0.35 * gaps[0]:      # still converging towards the analytic value
                            verdict = "inconclusive"
                finally:
                    b.h = h0
                if verdict != "bad":
                    labels.append("fd_refined")
            if abs(d) > 1e-9 * max(scale, 1e-300):
                labels.append("varies")
            if verdict == "inconclusive":
                labels.append("inconclusive")
            elif verdict == "bad":
                which = "all" if len(S) > 1 or nin == 1 else f"in{S[0]}"
                bad(f"adjoint:{comp}:{which}", f"analytic {a:.12g} vs numeric {d:.12g} (err est {err:.2e}, rel {rel:.2e}, "
                                               f"seeds {[None if w is None else 'set' for w in ws]})")
                break
        if V:
            break
    return labels, V
