"""C16 — aggregations bound the true extreme; active sets select the requested band.

Code under test: pymoto/modules/aggregation.py (AggActiveSet, AggScaling, PNorm, KSFunction, SoftMinMax).
Oracles (all written here, nothing taken from pymoto):
  * active set: a *validity predicate* on the returned mask. Entries with equal value are interchangeable, so the
    predicate counts, per group of equal values, how many entries were kept and compares this with the only count
    that "band, minus the floor(n*lower_amt) lowest and the floor(n*(1-upper_amt)) highest entries" admits.
    Band membership and the two counts are evaluated in exact rational arithmetic on the float inputs.
  * aggregation bounds: textbook inequalities on the active subset.
  * scaling: the recurrence s_k = d*s_(k-1) + (1-d)*true_k/approx_k, s_0 = true_0/approx_0, y_k = s_k*approx_k.
"""
import itertools
import math
from fractions import Fraction as F

import numpy as np
from hypothesis import strategies as st
from pbt.harness import viol

PROPERTY_ID = "C16"
RULE = ("case = aggregation class (PNorm/KSFunction/SoftMinMax), signed parameter, optional AggActiveSet fractions "
        "(lower_rel, upper_rel, lower_amt, upper_amt from a grid incl. fractions whose product with n rounds to 0), "
        "optional AggScaling damping in [0,1), and a sequence of 1..6 response() calls each with its own positive data "
        "vector (n = 1..40; uniform, clustered, geometric, duplicated, integer-grid, constant or ten-decade log-uniform data). Enumerated "
        "sub-space: every vector over a 4-level value grid up to the stated length, for a fixed list of option sets. "
        "Non-trivial = some step has n >= 2 with non-constant data, and an active-set or scaling option is set. "
        "Distinct = sha1 of the canonical case JSON.")
EXHAUSTIVE_NOTE = ("all vectors over the value grid {1,2,3,5} (every tie pattern and ordering): quick n = 1..6 x 3 "
                   "active-set option sets, thorough n = 1..7 x 10 option sets")
FUZZ = {"quick": 0, "thorough": 3000, "instrument": "pymoto.modules.aggregation"}
ASSUMPTIONS = [
    "data are 1-D float arrays with strictly positive entries (the property's domain); |rho*x|, |alpha*x| <= 500 and "
    "|p*ln x| <= 500 so that exp/pow do not overflow (the drawn parameter is clamped accordingly)",
    "AggScaling `which` matches the sign of the aggregation parameter ('max' for positive, 'min' for negative)",
    "aggregation modules are only evaluated while the (valid) active subset is non-empty; an empty band has no "
    "defined aggregate",
    "floating-point slack: when n*fraction is within 1e-9 of an integer but not exactly that integer either "
    "neighbouring count is accepted; a normalised value within 1e-12 of a band limit (and not provably equal to it "
    "in exact arithmetic) may fall on either side",
]

AGGS = ["PNorm", "KSFunction", "SoftMinMax"]
LEVELS = [1.0, 2.0, 3.0, 5.0]
LOWER_REL = [0.0, 0.0, 0.1, 0.25, 1.0 / 3.0, 0.5]
UPPER_REL = [1.0, 1.0, 0.9, 0.75, 2.0 / 3.0, 0.5]
LOWER_AMT = [0.0, 0.0, 0.05, 0.1, 0.125, 0.2, 0.25, 1.0 / 3.0, 0.5]
UPPER_AMT = [1.0, 1.0, 0.95, 0.9, 0.875, 0.8, 0.75, 2.0 / 3.0, 0.5]
ENUM_OPTS = [
    [0.0, 1.0, 0.2, 0.9],          # upper count rounds to 0 for n < 10, lower count 0 for n < 5
    [0.25, 0.5, 0.0, 1.0],         # band limits hit exactly by the grid values
    [0.0, 1.0, 0.34, 0.67],        # both ends cut inside tie groups
    [0.25, 1.0, 0.25, 0.75],
    [0.0, 0.75, 0.125, 0.5],
    [0.1, 0.9, 0.5, 0.95],
    [0.0, 1.0, 0.0, 0.5],
    [0.0, 1.0, 0.5, 1.0],
    [0.5, 1.0, 0.0, 0.8],
    [0.0, 0.5, 1.0 / 3.0, 2.0 / 3.0],
]
DISTS = ["uniform", "clustered", "geometric", "dups", "arange", "grid4", "constant", "decades", "tight", "tiny"]


def budget(tier):
    return {"examples": 6000 if tier == "quick" else 250000, "shards": 16, "shrink": 400 if tier == "quick" else 2000}


def enumerate_cases(tier):
    nmax, opts = (6, ENUM_OPTS[:3]) if tier == "quick" else (7, ENUM_OPTS)
    out = []
    k = 0
    for n in range(1, nmax + 1):
        for vals in itertools.product(LEVELS, repeat=n):
            for o in opts:
                k += 1
                out.append({"agg": AGGS[k % 3], "param": 2.0 if (k // 3) % 2 == 0 else -2.0, "act": list(o),
                            "scaling": [None, 0.0, 0.5][(k // 6) % 3], "steps": [{"values": list(vals)}]})
    return out


def strategy(tier):
    big = tier != "quick"

    @st.composite
    def act(draw):
        lr, ur = draw(st.sampled_from(LOWER_REL)), draw(st.sampled_from(UPPER_REL))
        if not ur > lr:
            lr = 0.0
        la, ua = draw(st.sampled_from(LOWER_AMT)), draw(st.sampled_from(UPPER_AMT))
        if not ua > la:
            la = 0.0
        return [lr, ur, la, ua]

    step = st.fixed_dictionaries({
        "n": st.one_of(st.integers(1, 12), st.integers(1, 40)),
        "dist": st.sampled_from(DISTS),
        "scale": st.sampled_from([1.0, 1.0, 0.125, 100.0]),
        "seed": st.integers(0, 2 ** 31 - 1),
        # parameter continuation: the module's p / rho / alpha attribute is multiplied by this factor before the step
        # (as tests/test_aggregration.py does with KSFunction.rho); 1 = unchanged
        "pfac": st.sampled_from([1.0, 1.0, 1.0, 0.5, 2.0]),
        # back-propagate (seed 1, sensitivity(), reset()) after this response, as every optimisation iteration does: the
        # damped scaling must advance once per response(), not per call into the module
        "sens": st.sampled_from([False, False, True]),
    })

    @st.composite
    def case(draw):
        # 1e9 stands for "the largest admissible magnitude for the data" (effective_param clamps it to the overflow limit)
        mag = draw(st.one_of(st.sampled_from([0.5, 1.0, 2.0, 4.0, 8.0, 20.0, 60.0, 1e9]),
                             st.floats(0.3, 80.0, allow_nan=False).map(lambda v: round(v, 3))))
        sign = draw(st.sampled_from([1.0, -1.0]))
        return {
            "agg": draw(st.sampled_from(AGGS)),
            "param": sign * mag,
            "act": draw(st.one_of(st.none(), act(), act())),
            "scaling": draw(st.one_of(st.none(), st.sampled_from([0.0, 0.0, 0.3, 0.5, 0.9]),
                                      st.floats(0.0, 0.99, allow_nan=False).map(lambda v: round(v, 4)))),
            "steps": draw(st.lists(step, min_size=1, max_size=6 if big else 4)),
            # AggScaling accepts `which` in any letter case ('min' / 'Min' / 'MAX' ...)
            "spell": draw(st.sampled_from(["lower", "lower", "title", "upper"])),
        }
    return case()


def nontrivial(labels):
    return "nonconstant_n2" in labels and ("active_set" in labels or "scaling" in labels)


# ----------------------------------------------------------------------------------------------------------------
# data
def make_data(step):
    if "values" in step:
        return np.array(step["values"], dtype=float)
    n, dist, scale = step["n"], step["dist"], step["scale"]
    rng = np.random.default_rng(step["seed"])
    if dist == "uniform":
        x = 0.05 + rng.random(n) * 2.0
    elif dist == "clustered":      # most values within 1e-3 of the extreme, a few far away
        x = 1.0 + rng.random(n) * 1e-3
        x[rng.random(n) < 0.2] = 0.3
    elif dist == "tight":          # distinct values whose spread is 1e-7 of their magnitude (250.00000 .. 250.00002)
        x = 250.0 * (1.0 + rng.permutation(n).astype(float) * 1e-7 / max(1, n - 1))
    elif dist == "tiny":           # distinct values of magnitude 1e-9
        x = 1e-9 * (1.0 + rng.permutation(n).astype(float))
    elif dist == "geometric":
        x = 0.02 * 1.35 ** rng.permutation(n).astype(float)
    elif dist == "decades":        # log-uniform over ten decades around 1: every x**p stays representable (the parameter
        x = 10.0 ** rng.uniform(-5.0, 5.0, n)   # is clamped to |p ln x| <= 500) although (max/min)**|p| is not
    elif dist == "dups":
        pool = 0.25 * (1 + rng.integers(0, 8, size=max(1, min(4, n))))
        x = rng.choice(pool, size=n)
    elif dist == "arange":         # 1..n in random order: normalised values are exact multiples of 1/(n-1)
        x = 1.0 + rng.permutation(n).astype(float)
    elif dist == "grid4":
        x = rng.choice(np.array(LEVELS), size=n)
    else:
        x = np.full(n, 0.75)
    return np.ascontiguousarray(x * scale, dtype=float)


# ----------------------------------------------------------------------------------------------------------------
# active-set oracle
def _count_options(n, frac, computed):
    """Admissible values of floor(n*frac). frac: exact Fraction of the requested fraction; computed: the float the
    straightforward double evaluation of the fraction gives (to tell whether that evaluation is exact)."""
    p = n * frac
    m = int(round(p))
    if p == m and F(computed) == frac:
        return [m]
    if abs(p - m) <= F(1, 10 ** 9):
        return sorted({max(m - 1, 0), m})
    return [int(math.floor(p))]


def _band_status(v, xmin, xmax, lr, ur):
    """True / False / None (undecidable at double precision) for lower_rel <= (v-xmin)/(xmax-xmin) <= upper_rel."""
    num, den = F(v) - F(xmin), F(xmax) - F(xmin)
    q = num / den
    exact_ops = F(float(v - xmin)) == num and F(float(xmax - xmin)) == den
    res = True
    for active, bound, keep_if in ((lr > 0, lr, lambda a, b: a >= b), (ur < 1, ur, lambda a, b: a <= b)):
        if not active:
            continue
        b = F(bound)
        if q == b:
            r = True if exact_ops else None      # limits are inclusive
        elif abs(q - b) < F(1, 10 ** 12):
            r = None
        else:
            r = keep_if(q, b)
        if r is False:
            return False
        if r is None:
            res = None
    return res


def active_set_oracle(x, act):
    """Returns (groups, combos): groups = list of (value, indices, band status); combos = list of
    (kL, kH, {value: kept count if the group is inside the band})."""
    n = x.size
    lr, ur, la, ua = act
    vals = sorted(set(x.tolist()))
    if len(vals) == 1:
        return [(vals[0], np.arange(n), True)], [(0, 0, {vals[0]: n})], ([0], [0])
    groups = [(v, np.flatnonzero(x == v), _band_status(v, vals[0], vals[-1], lr, ur)) for v in vals]
    kl_opts = _count_options(n, F(la), la) if la > 0 else [0]
    kh_opts = _count_options(n, 1 - F(ua), 1.0 - ua) if ua < 1 else [0]
    combos = []
    for kl in kl_opts:
        for kh in kh_opts:
            below = 0
            exp = {}
            for v, idx, _ in groups:
                g = idx.size
                above = n - below - g
                n_low = min(max(kl - below, 0), g)       # members of this tie group among the kl lowest entries
                n_high = min(max(kh - above, 0), g)      # ... among the kh highest entries
                exp[v] = max(g - n_low - n_high, 0)
                below += g
            combos.append((kl, kh, exp))
    return groups, combos, (kl_opts, kh_opts)


def mask_verdict(x, act, mask):
    """None if `mask` is a correct active set for x, else (bucket suffix, detail)."""
    n = x.size
    if mask is Ellipsis:
        mask = np.ones(n, dtype=bool)
    mask = np.asarray(mask)
    if mask.dtype != np.bool_ or mask.shape != x.shape:
        return "mask_type", f"mask dtype {mask.dtype} shape {mask.shape} for data of shape {x.shape}"
    groups, combos, (kl_opts, kh_opts) = active_set_oracle(x, act)
    kept = {v: int(mask[idx].sum()) for v, idx, _ in groups}
    for kl, kh, exp in combos:
        ok = True
        for v, idx, status in groups:
            allowed = {exp[v]} if status is True else ({0} if status is False else {0, exp[v]})
            if kept[v] not in allowed:
                ok = False
                break
        if ok:
            return None
    lr, ur, la, ua = act
    kl, kh, exp = combos[0]
    want = {v: (exp[v] if status is not False else 0) for v, _, status in groups}
    if ua < 1 and 0 in kh_opts and sum(kept.values()) == 0 < sum(want.values()):
        kind = "upper_amt_rounds_to_zero"        # nothing should be cut at the top, everything is
    elif la > 0 and 0 in kl_opts and sum(kept.values()) < sum(want.values()) and kh_opts == [0]:
        kind = "lower_amt_rounds_to_zero"
    elif la == 0 and ua == 1:
        kind = "value_band"
    else:
        kind = "sorted_amount"
    return kind, (f"x={x.tolist()} lower_rel={lr} upper_rel={ur} lower_amt={la} upper_amt={ua}: kept per value "
                  f"{kept}, expected {want} (lowest removed {kl_opts}, highest removed {kh_opts}); "
                  f"mask={mask.astype(int).tolist()}")


# ----------------------------------------------------------------------------------------------------------------
# aggregation oracles
def bounds(agg, par, xa):
    """(lo, hi) that the un-scaled aggregate of the positive values xa must satisfy."""
    n = xa.size
    mx, mn, mean = float(xa.max()), float(xa.min()), math.fsum(xa.tolist()) / n
    if agg == "PNorm":
        return (mx, n ** (1.0 / par) * mx) if par > 0 else (n ** (1.0 / par) * mn, mn)
    if agg == "KSFunction":
        return (mx, mx + math.log(n) / par) if par > 0 else (mn + math.log(n) / par, mn)
    return (mean, mx) if par > 0 else (mn, mean)


def effective_param(agg, par, datas):
    xmax = max(float(x.max()) for x in datas)
    if agg == "PNorm":
        lim = 500.0 / max(1e-9, max(float(np.abs(np.log(x)).max()) for x in datas))
    else:
        lim = 500.0 / xmax
    return math.copysign(min(abs(par), lim), par)


def check_case(case):
    import pymoto as pym
    agg, act, damping = case["agg"], case["act"], case["scaling"]
    datas = [make_data(s) for s in case["steps"]]
    pfacs = [float(st_.get("pfac", 1.0)) for st_ in case["steps"]]
    par = effective_param(agg, case["param"] * max(pfacs), datas) / max(pfacs)    # every par*pfac stays below the overflow limit
    which = "max" if par > 0 else "min"
    which_arg = {"lower": which, "title": which.title(), "upper": which.upper()}[case.get("spell", "lower")]
    labels = [agg, "param_pos" if par > 0 else "param_neg", f"steps{min(len(datas), 3)}{'+' if len(datas) > 3 else ''}"]
    if act is not None:
        labels.append("active_set")
        if act[0] > 0 or act[1] < 1:
            labels.append("act_rel")
        if act[2] > 0 or act[3] < 1:
            labels.append("act_amt")
    if damping is not None:
        labels += ["scaling", "damped" if damping > 0 else "undamped"]
        if which_arg != which:
            labels.append("which_not_lowercase")
    if any(x.size >= 2 and x.min() != x.max() for x in datas):
        labels.append("nonconstant_n2")
    if any(x.size == 1 for x in datas):
        labels.append("n1")
    if any(x.size >= 2 and x.max() > 1e6 * x.min() for x in datas):
        labels.append("wide_data" if act is None else "wide_data_with_active_set")
    if any(x.size >= 2 and np.unique(x).size < x.size for x in datas):
        labels.append("ties")
    V = []

    def bad(bucket, detail):
        V.append(viol(f"C16:{bucket}", f"{detail} | agg={agg} param={par} act={act} damping={damping}"))

    # ---- 1. AggActiveSet called directly on every data vector
    run_modules = True
    if act is not None:
        for x in datas:
            if x.size >= 2 and x.min() != x.max():
                _, _, (kl_opts, kh_opts) = active_set_oracle(x, act)
                if (act[2] > 0 and kl_opts == [0]) or (act[3] < 1 and kh_opts == [0]):
                    labels.append("count_rounds_to_zero")
                if len(kl_opts) > 1 or len(kh_opts) > 1:
                    labels.append("count_near_integer")
            try:
                mask = pym.AggActiveSet(*act)(x)
            except Exception as e:
                bad(f"raises:AggActiveSet:{type(e).__name__}", f"x={x.tolist()}: {e!r}")
                run_modules = False
                continue
            verdict = mask_verdict(x, act, mask)
            if verdict is not None:
                bad(f"active_set:{verdict[0]}", verdict[1])
                run_modules = False
            elif x[mask].size == 0:
                labels.append("empty_active")
                run_modules = False
    if not run_modules:
        return sorted(set(labels)), V

    # ---- 2. the configured module; its un-scaled aggregate is read through Aggregation.aggregation_function
    cls = getattr(pym, agg)
    key = {"PNorm": "p", "KSFunction": "rho", "SoftMinMax": "alpha"}[agg]
    try:
        s_full = pym.Signal("x")
        m_full = cls(s_full, **{key: par}, active_set=None if act is None else pym.AggActiveSet(*act),
                     scaling=None if damping is None else pym.AggScaling(which_arg, damping=damping))
    except Exception as e:
        bad(f"raises:init:{type(e).__name__}", repr(e))
        return sorted(set(labels)), V
    s_exp = None
    par0 = par
    for k, x in enumerate(datas):
        s_full.state = x.copy()
        par = par0 * pfacs[k]
        if pfacs[k] != 1.0 or (k > 0 and pfacs[k - 1] != 1.0):
            setattr(m_full, key, par)           # continuation of the aggregation parameter between evaluations
            labels.append("parameter_continuation")
        try:
            m_full.response()
        except Exception as e:
            bad(f"raises:response:{agg}:{type(e).__name__}", f"step {k} x={x.tolist()}: {e!r}"[:900])
            break
        y, sel = m_full.sig_out[0].state, m_full.select      # `select`: the active set the module used (attribute)
        if case["steps"][k].get("sens"):
            try:
                m_full.sig_out[0].sensitivity = 1.0
                m_full.sensitivity()
                m_full.reset()
                labels.append("sensitivity_between_responses")
            except Exception as e:
                bad(f"raises:sensitivity:{agg}:{type(e).__name__}", f"step {k} x={x.tolist()}: {e!r}"[:900])
                break
        try:
            approx = m_full.aggregation_function(s_full.state[sel])
        except Exception as e:
            bad(f"raises:response:{agg}:{type(e).__name__}", f"step {k} x={x.tolist()}: {e!r}"[:900])
            break
        if not np.array_equal(s_full.state, x):
            bad("input_modified", f"step {k}: response() changed its input from {x.tolist()} to {s_full.state.tolist()}")
            break
        if act is not None:
            verdict = mask_verdict(x, act, sel)
            if verdict is not None:
                bad(f"active_set:{verdict[0]}", "module.select: " + verdict[1])
                break
        elif x[sel].size != x.size:
            bad("active_set:no_set_requested", f"step {k}: select={sel!r} without an active set")
            break
        xa = xa_f = x[sel]
        if not (np.ndim(approx) == 0 and np.ndim(y) == 0 and np.isfinite(approx) and np.isfinite(y)):
            bad(f"bounds:{agg}:not_finite_scalar", f"step {k} x={x.tolist()}: aggregate={approx!r} output={y!r}")
            break
        approx, y = float(approx), float(y)
        # bounds of the un-scaled aggregate on its active subset
        lo, hi = bounds(agg, par, xa)
        slack = 1e-12 * max(abs(lo), abs(hi), abs(approx))
        if agg == "KSFunction":
            # (1/rho) ln sum exp(rho x): the logarithm carries an absolute rounding error of a few eps*(1+|ln|), which
            # after the division by rho is an *absolute* error that a relative slack does not cover for tiny rho*x
            slack += 64 * np.finfo(float).eps * (1.0 + abs(par) * float(np.abs(xa).max()) + math.log(xa.size)) / abs(par)
        if approx < lo - slack or approx > hi + slack:
            bad(f"bounds:{agg}:{'pos' if par > 0 else 'neg'}",
                f"step {k}: aggregate {approx!r} outside [{lo!r}, {hi!r}] for active values {xa.tolist()}")
        # scaling
        if damping is None:
            if not abs(y - approx) <= 1e-13 * abs(approx):
                bad(f"unscaled_differs:{agg}", f"step {k}: output {y!r} differs from the aggregate {approx!r} although no scaling is set")
            continue
        true = float(xa_f.max() if which == "max" else xa_f.min())
        scale = true / approx
        s_exp = scale if s_exp is None else damping * s_exp + (1 - damping) * scale
        y_exp = s_exp * approx
        if damping == 0:
            if not abs(y - true) <= 1e-13 * abs(true):
                bad("scaling:undamped_not_exact", f"step {k}: output {y!r}, true {which} of the active set {true!r}")
        if not abs(y - y_exp) <= 1e-12 * abs(y_exp):
            bad("scaling:damped_recurrence" if damping > 0 else "scaling:undamped_recurrence",
                f"step {k}: output {y!r} but s_k*approx = {y_exp!r} (s_k={s_exp!r}, approx={approx!r}, true={true!r})")
    return sorted(set(labels)), V
