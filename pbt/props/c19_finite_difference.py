"""C19 — finite_difference is a faithful and non-destructive derivative check.

Code under test: pymoto/routines.py::finite_difference. The modules it is pointed at are written here
(pbt/props/_c19_helpers.py): polynomial maps of degree <= 2 with exactly known derivatives, each also in deliberately
wrong variants. Every (x0, dx, an, fd) tuple is received through `test_fn` and compared with
  an : Re/Im of the sensitivity that Module/Network.sensitivity() backpropagates for the seed that was used
       (re-computed after the call with the recorded seed),
  fd : the exact directional derivative (forward-mode tangents through the reference graph) up to O(dx): the allowed
       deviation is twice the higher-order part of the exact difference quotient plus a rounding bound / dx.
"""
import contextlib
import copy
import io
import sys

import numpy as np
from hypothesis import strategies as st
from pbt.harness import viol
from pbt.props import _c19_helpers as H

PROPERTY_ID = "C19"
RULE = ("case = a module graph built from maps with exactly known derivatives (lin, quad, element-wise square, plain "
        "python scalar polynomial, conj / |x|^2 / Re-Im (non-holomorphic), sparse-matrix output), either one module "
        "called directly or a 3-module Network (pre -> m1 -> m2, m1 optionally reading a single or nested basic slice of pre's output) with explicit fromsig/tosig subsets; input kinds "
        "python float/complex, numpy scalars, 0-d/1-d/2-d arrays, real or complex, with exact zeros; one module may be "
        "a wrong variant (entry scaled, sign, missing term, transposed block, conjugated gradient); options dx, "
        "relative_dx, random / ones / use_df seeds, keep_zero_structure, verbose. Non-trivial = (>= 2 perturbed "
        "inputs or complex data) and every perturbed input has a non-zero derivative entry. Distinct = sha1 of the "
        "canonical case JSON.")
ASSUMPTIONS = [
    "tuples arrive in the loop order of the code: inputs in fromsig order, entries in numpy's element-iteration order of "
    "the state array (C order for C-contiguous arrays, memory order otherwise), for each entry one "
    "tuple per output (real direction) and, for complex entries, one more per output (imaginary direction)",
    "arrays are float64/complex128, C-contiguous, Fortran-ordered or reversed views; sparse inputs, integer inputs and SignalSlice outputs are not claimed",
    "signals are a Signal subclass that records direct assignments of `sensitivity` (how the seed that was used is "
    "recovered); with use_df some cases use plain pymoto.Signal and take use_df as the seed",
    "Networks are always given explicit fromsig/tosig lists (Network.sig_in/sig_out have set order) whose selected "
    "sub-network is non-empty",
    "imaginary-direction tuples follow the library's convention: the reported pair is Im(g_k) and "
    "-d/dt Re sum(w*y(x + i t e_k)), for the gradient convention d Re sum(w*y) = Re sum(g*dx)",
]

EPS = 2.0 ** -52
DXS = [1e-4, 1e-5, 1e-6, 1e-7, 1e-8]
SCALAR_KINDS = list(H.SCALAR_KINDS) + ["arr0"]
SINGLE_INPUT_TYPES = ["esq", "conj", "abs2", "reim", "pyscalar"]
_CLS = {}


def budget(tier):
    return {"examples": 8000 if tier == "quick" else 100000, "shards": 16, "shrink": 300 if tier == "quick" else 1500}


def nontrivial(labels):
    return ("inputs2+" in labels or "complex" in labels) and "all_inputs_nonzero_jac" in labels


# ----------------------------------------------------------------------------------------------------------------
# strategy
def strategy(tier):
    seed = st.integers(0, 2 ** 31 - 1)

    def inp(kinds, allow_zero=True):
        @st.composite
        def f(draw):
            kind = draw(st.sampled_from(kinds))
            cplx = kind in ("pycomplex", "npcomplex") or (kind in ("arr0", "arr1", "arr2") and draw(st.booleans()))
            shape = {"arr1": [draw(st.integers(1, 4))], "arr2": [draw(st.integers(1, 3)), draw(st.integers(1, 3))]}.get(kind, [])
            zeros = draw(st.sampled_from([0, 0, 0, 1, 2])) if allow_zero else 0
            if kind in H.SCALAR_KINDS:
                zeros = 1 if zeros and draw(st.integers(0, 7)) == 0 else 0       # zero python scalars only rarely
            return {"kind": kind, "cplx": bool(cplx), "shape": shape, "zeros": zeros, "seed": draw(seed),
                    "layout": draw(st.sampled_from(["C", "C", "C", "F", "rev"])),   # memory layout of array inputs
                    # 1-D inputs of a single module may be slices of a larger signal (real data only)
                    "via": draw(st.sampled_from(["direct", "direct", "basic", "fancy"]))}
        return f()

    out_shape = st.sampled_from([[], [], [1], [3], [2, 2]])
    variant = st.one_of(st.just("ok"), st.sampled_from(list(H.VARIANTS)))

    @st.composite
    def mod(draw, types, max_out=3):
        t = draw(st.sampled_from(types))
        return {"type": t, "variant": draw(variant), "cplx_coef": draw(st.sampled_from([False, False, True])),
                "seed": draw(seed), "outs": draw(st.lists(out_shape, min_size=1, max_size=max_out)),
                "fmt": draw(st.sampled_from(["csr", "csc"]))}

    @st.composite
    def options(draw):
        return {"dx": draw(st.sampled_from(DXS)), "relative_dx": draw(st.booleans()),
                "seedmode": draw(st.sampled_from(["random", "random", "ones", "use_df"])),
                "rng_seed": draw(st.integers(0, 2 ** 31 - 1)), "keep_zero": draw(st.sampled_from([True, True, False])),
                "verbose": draw(st.sampled_from([True, False])), "plain_signals": draw(st.booleans()),
                "prealloc": draw(st.sampled_from([False, False, True])),
                # call history: the block was last evaluated at *other* input values, the inputs were re-assigned since
                # (a sweep over design points), so every output still holds a state that does not belong to the inputs
                "stale": draw(st.sampled_from([False, False, True])),
                "bare": draw(st.booleans())}

    @st.composite
    def single(draw):
        m = draw(mod(["lin", "lin", "quad", "sparse", "pyscalar"] + SINGLE_INPUT_TYPES))
        if m["type"] in SINGLE_INPUT_TYPES:
            kinds = SCALAR_KINDS if m["type"] == "pyscalar" else SCALAR_KINDS + ["arr1", "arr1", "arr2"]
            inputs = [draw(inp(kinds))]
        else:
            inputs = draw(st.lists(inp(SCALAR_KINDS + ["arr1", "arr1", "arr2"]), min_size=1, max_size=3))
        c = {"template": "single", "inputs": inputs, "mods": [m],
             "fromsig": draw(st.one_of(st.none(), st.lists(st.integers(0, 2), min_size=1, max_size=3, unique=True))),
             "tosig": draw(st.one_of(st.none(), st.lists(st.integers(0, 2), min_size=1, max_size=3, unique=True)))}
        c.update(draw(options()))
        return c

    @st.composite
    def chain(draw):
        inputs = [draw(inp(["arr1"])), draw(inp(SCALAR_KINDS + ["arr1", "arr2"]))]
        pre = draw(mod(["lin"], 1))
        pre["outs"] = [[draw(st.integers(1, 3))]]
        m1 = draw(mod(["lin", "lin", "quad"], 1))
        m1["outs"] = [[draw(st.integers(1, 3))], draw(out_shape)]
        m2 = draw(mod(["lin", "quad", "sparse", "esq", "conj", "abs2", "reim"], 2))
        m2["with_z"] = draw(st.booleans())
        # m1 may read a (nested) basic slice of x instead of x itself: the sub-network selection for fromsig/tosig has
        # to follow slices down to the signal that holds the data
        xslice = draw(st.sampled_from([None, None, "single", "nested", "nested"]))
        if xslice:
            pre["outs"] = [[draw(st.integers(3, 6))]]
        if xslice and (inputs[0]["cplx"] or inputs[1]["cplx"] or m1["cplx_coef"] or m2["cplx_coef"]):
            pre["cplx_coef"] = True     # complex adjoints can only be added into the slice of a complex signal
        xs = {"a": draw(st.integers(0, 2)), "len": draw(st.integers(2, 4)), "step": draw(st.sampled_from([1, 1, 2])),
              "a2": draw(st.integers(0, 1)), "len2": draw(st.integers(1, 2)), "step2": draw(st.sampled_from([1, 2, -1]))}
        only_one_wrong = draw(st.integers(0, 2))
        for k, m in enumerate((pre, m1, m2)):
            if k != only_one_wrong:
                m["variant"] = "ok"
        c = {"template": "chain", "inputs": inputs, "mods": [pre, m1, m2],
             "fromsig": draw(st.sampled_from(["src", "src", "cut", "x", "z", "s0"])),
             "tosig": draw(st.lists(st.integers(0, 5), min_size=1, max_size=3, unique=True)),
             "xslice": xslice, "xs": xs}
        c.update(draw(options()))
        return c
    return st.one_of(single(), chain())


# ----------------------------------------------------------------------------------------------------------------
# pyMOTO-side objects
def _classes():
    if _CLS:
        return _CLS
    import pymoto as pym
    from pymoto.core_objects import SignalSlice

    class TapSignal(pym.Signal):
        """Signal that remembers which values were assigned to `sensitivity` directly (i.e. the seeds)."""

        def __init__(self, tag, state=None):
            self._sens, self.direct, self._depth, self.recording = None, [], 0, True
            super().__init__(tag, state)

        @property
        def sensitivity(self):
            return self._sens

        @sensitivity.setter
        def sensitivity(self, v):
            if v is not None and self._depth == 0 and self.recording \
                    and not isinstance(sys._getframe(1).f_locals.get("self"), SignalSlice):
                # (a SignalSlice allocating its base's buffer is not a seed); recorded by value: the array may later be
                # cleared in place when a slice of this signal is reset
                self.direct.append(copy.deepcopy(v))
            self._sens = v

        def add_sensitivity(self, ds):
            self._depth += 1
            try:
                return super().add_sensitivity(ds)
            finally:
                self._depth -= 1

    class HMod(pym.Module):
        def _prepare(self, spec):
            self.spec = spec

        def _response(self, *xs):
            return self.spec.forward(list(xs))

        def _sensitivity(self, *ws):
            return self.spec.adjoint_impl([s.state for s in self.sig_in], list(ws))

    _CLS.update(TapSignal=TapSignal, HMod=HMod, pym=pym)
    return _CLS


def _spec(m, protos, cx, outs=None):
    return H.Spec(m["type"], m["variant"], m["seed"], protos, cplx_coef=m["cplx_coef"],
                  out_shapes=[tuple(s) for s in (outs if outs is not None else m["outs"])], fmt=m.get("fmt", "csr"),
                  cx=cx)


def build(case):
    """Returns dict with reference net, wiring, chosen fromsig/tosig names, base values."""
    ins = case["inputs"]
    vals = [H.make_value(i["kind"], i["cplx"], i["shape"], i["zeros"], i["seed"]) for i in ins]
    cx = any(i["cplx"] for i in ins) or any(m["cplx_coef"] for m in case["mods"])
    ref = H.RefNet()
    if case["template"] == "single":
        m = case["mods"][0]
        names = [f"in{k}" for k in range(len(ins))]
        base = dict(zip(names, vals))
        spec = _spec(m, vals, cx)
        outs = [f"out{k}" for k in range(spec.nout)]
        ref.add(spec, names, outs)
        fs = names if case["fromsig"] is None else [names[k] for k in dict.fromkeys(i % len(names) for i in case["fromsig"])]
        ts = outs if case["tosig"] is None else [outs[k] for k in dict.fromkeys(i % len(outs) for i in case["tosig"])]
        kinds = dict(zip(names, [i["kind"] for i in ins]))
        sources = names
        explicit = (case["fromsig"] is not None, case["tosig"] is not None)
    else:
        pre, m1, m2 = case["mods"]
        base = {"s0": vals[0], "z": vals[1]}
        sp0 = _spec(pre, [base["s0"]], cx)
        ref.add(sp0, ["s0"], ["x"])
        tmp = ref.evaluate(base)
        xin = "x"
        if case.get("xslice"):
            sel = SelSpec(len(tmp["x"]), case["xslice"], case["xs"])
            ref.add(sel, ["x"], ["xs"])
            tmp = ref.evaluate(base)
            xin = "xs"
        sp1 = _spec(m1, [tmp[xin], base["z"]], cx, outs=m1["outs"] if m1["type"] == "lin" else [()])
        o1 = ["u", "v"] if sp1.nout == 2 else ["u"]
        ref.add(sp1, [xin, "z"], o1)
        tmp = ref.evaluate(base)
        multi = m2["type"] in ("lin", "quad", "sparse") and m2.get("with_z")
        in2 = ["u", "z"] if multi else ["u"]
        sp2 = _spec(m2, [tmp[n] for n in in2], cx)
        o2 = [f"y{k}" for k in range(sp2.nout)]
        ref.add(sp2, in2, o2)
        fs = {"src": ["s0", "z"], "cut": ["x", "z"], "x": ["x"], "z": ["z"], "s0": ["s0"]}[case["fromsig"]]
        avail = (["x"] if "s0" in fs else []) + o1 + o2
        ts = [avail[k] for k in dict.fromkeys(i % len(avail) for i in case["tosig"])]
        kinds = {"s0": ins[0]["kind"], "z": ins[1]["kind"], "x": "arr1"}
        sources = ["s0", "z"]
        explicit = (True, True)
    return {"ref": ref, "base": base, "fromsig": fs, "tosig": ts, "kinds": kinds, "sources": sources, "cx": cx,
            "explicit": explicit}


class SelSpec:
    """Reference-side stand-in for a (nested) basic slice of a 1-D signal: y = x[idx]. On the pyMOTO side it is not a
    module but the SignalSlice object x[s1] or x[s1][s2] handed to the consuming module."""
    typ, variant, nout = "sel", "ok", 1

    def __init__(self, n, mode, o):
        self.s1 = slice(o["a"], o["a"] + o["len"] * o["step"], o["step"])
        self.s2 = None
        idx = np.arange(n)[self.s1]
        if mode == "nested":
            a2 = min(o["a2"], len(idx) - 1)
            if o["step2"] < 0:
                self.s2 = slice(None, None, -1)
            else:
                self.s2 = slice(a2, a2 + o["len2"] * o["step2"], o["step2"])
            idx = idx[self.s2]
        assert len(idx) >= 1
        self.idx = idx
        self.N = len(idx)

    def apply(self, signal):
        return signal[self.s1] if self.s2 is None else signal[self.s1][self.s2]

    def forward(self, xs):
        return [np.asarray(xs[0])[self.idx]]

    def mag(self, axs):
        return [np.asarray(axs[0])[self.idx]]

    def jvp(self, xs, ts):
        return [np.asarray(ts[0])[self.idx]]


def _bits(v):
    if isinstance(v, np.ndarray):
        return (v.dtype.str, v.shape, v.tobytes())
    return (bool(np.iscomplexobj(v)), complex(v).real.hex(), complex(v).imag.hex())


def _entries(v, like=None):
    """(multi_index, value) of an input state in the order numpy's element iterator visits `like` (the array object
    held by the signal): memory order, i.e. C order for C-contiguous arrays, column-major for Fortran-ordered ones and
    back to front for a reversed view. The property does not fix an order; the check only needs to know which entry a
    tuple belongs to, which it then confirms through the reported x0."""
    if isinstance(v, np.ndarray):
        if isinstance(like, np.ndarray) and like.shape == v.shape and v.ndim >= 1:
            it = np.nditer(like, flags=["multi_index"])
            order = []
            while not it.finished:
                order.append(tuple(it.multi_index))
                it.iternext()
        else:
            order = list(np.ndindex(v.shape))
        return [(idx, v[idx]) for idx in order]
    return [((), v)]


def _relayout(v, layout):
    """Same values, other memory layout: 'F' column-major (ndim >= 2), 'rev' a reversed view (negative stride)."""
    if not isinstance(v, np.ndarray) or v.ndim == 0:
        return v
    if layout == "F" and v.ndim >= 2:
        return np.asfortranarray(v)
    if layout == "rev" and v.shape[0] >= 2:
        return np.ascontiguousarray(v[::-1])[::-1]
    return v


def check_case(case):
    C = _classes()
    pym, TapSignal, HMod = C["pym"], C["TapSignal"], C["HMod"]
    B = build(case)
    ref, base, fs, ts, kinds = B["ref"], B["base"], B["fromsig"], B["tosig"], B["kinds"]
    dx, rel, keep_zero = case["dx"], case["relative_dx"], case["keep_zero"]
    V = []
    labels = [case["template"], "complex" if B["cx"] else "real", case["seedmode"], f"dx{dx:g}",
              "relative_dx" if rel else "absolute_dx", "keep_zero" if keep_zero else "all_entries"]
    labels += [f"type_{s.typ}" for s, _, _ in ref.mods]
    labels += [f"kind_{kinds[n]}" for n in fs]
    wrong = [s.variant for s, _, _ in ref.mods if s.variant != "ok"]
    labels += [f"variant_{w}" for w in wrong] or ["variant_ok"]
    if len(fs) >= 2:
        labels.append("inputs2+")
    if len(ts) >= 2:
        labels.append("outputs2+")

    def bad(bucket, detail):
        V.append(viol(f"C19:{bucket}", f"{detail} | template={case['template']} types={[s.typ for s, _, _ in ref.mods]} "
                                       f"variants={[s.variant for s, _, _ in ref.mods]} fromsig={fs} tosig={ts} dx={dx} "
                                       f"relative_dx={rel} seedmode={case['seedmode']} keep_zero={keep_zero}"))

    # ---- build the pyMOTO objects
    plain = case["seedmode"] == "use_df" and case["plain_signals"]
    mk = (lambda tag, state=None: pym.Signal(tag, state)) if plain else TapSignal
    sig = {}
    prealloc = set()
    layouts = dict(zip(B["sources"], [i.get("layout", "C") for i in case["inputs"]]))
    vias = dict(zip(B["sources"], [i.get("via", "direct") for i in case["inputs"]]))
    via_base = {}
    for n in B["sources"]:
        v = base[n]
        lay_n = layouts.get(n, "C")
        via = vias.get(n, "direct")
        if via != "direct" and isinstance(v, np.ndarray) and v.ndim == 1 and not B["cx"] and case["template"] == "single":
            # the module input (and fromsig entry) is a SignalSlice of a larger source signal: a basic slice (a view) or
            # an index-array slice (its state getter returns a copy, so every write must go through the setter)
            rv = np.random.default_rng([case["rng_seed"], len(via_base)])
            big = rv.uniform(0.3, 2.0, v.size + 2)
            idx = slice(1, v.size + 1) if via == "basic" else rv.permutation(v.size + 2)[:v.size]
            big[idx] = v
            bsig = mk(n + "_base", big)
            sig[n] = bsig[idx]
            via_base[n] = (bsig, _bits(big))
            labels.append("input_is_slice:" + via)
            continue
        sig[n] = mk(n, _relayout(v.copy(), lay_n) if isinstance(v, np.ndarray) else v)
        if isinstance(v, np.ndarray) and v.ndim >= 1 and not sig[n].state.flags["C_CONTIGUOUS"]:
            labels.append("noncontiguous_input:" + lay_n)
        if case.get("prealloc") and isinstance(v, np.ndarray) and v.ndim >= 1:
            # a source signal constructed with a pre-allocated sensitivity buffer (Signal(tag, state, sensitivity=zeros)):
            # keep_alloc is on, so reset() zeroes the buffer in place instead of dropping it
            if not plain:
                sig[n].recording = False
            sig[n].sensitivity = np.zeros(v.shape, dtype=complex if B["cx"] else v.dtype)   # wide enough for the network
            sig[n].keep_alloc = True
            if not plain:
                sig[n].recording = True
            prealloc.add(n)
    if prealloc:
        labels.append("preallocated_sensitivity")
    mods = []
    for spec, ins, outs in ref.mods:
        if spec.typ == "sel":
            sig[outs[0]] = spec.apply(sig[ins[0]])
            labels.append("sliced_module_input:" + ("nested" if spec.s2 is not None else "single"))
            continue
        for o in outs:
            sig[o] = mk(o)
        mods.append(HMod([sig[i] for i in ins], [sig[o] for o in outs], spec))
    blk = mods[0] if case["template"] == "single" else pym.Network(mods)
    if case.get("stale") and not via_base and all(n in B["sources"] for n in fs):
        keep = {n: sig[n].state for n in B["sources"]}
        for n in B["sources"]:
            v = keep[n]
            sig[n].state = (v * 1.25 + (0.125 if not np.iscomplexobj(v) else 0.125j)) if isinstance(v, np.ndarray) else v * 1.25
        try:
            with np.errstate(all="ignore"):
                blk.response()
            labels.append("outputs_stale_before_call")
        except Exception:
            labels.append("stale_point_outside_domain")
        for n in B["sources"]:
            sig[n].state = keep[n]
    else:
        blk.response()
    full = ref.evaluate(base)                      # reference values of every signal at the base point
    frozen = [n for n in fs if n not in B["sources"]]
    x_before = {n: sig[n].state for n in fs}
    bits_before = {n: _bits(sig[n].state) for n in fs}
    if any(H.is_cplx(full[n]) for n in ts):
        labels.append("complex_output")
    if any(hasattr(full[n], "toarray") for n in ts):
        labels.append("sparse_output")

    # ---- seeds
    use_df = None
    if case["seedmode"] == "use_df":
        rng = np.random.default_rng(case["rng_seed"])
        use_df = []
        for n in ts:
            y = full[n]
            shp = np.shape(H.dense(y))
            w = rng.uniform(-1, 1, shp) + (1j * rng.uniform(-1, 1, shp) if H.is_cplx(y) else 0)
            if not isinstance(y, np.ndarray) and not hasattr(y, "toarray") and shp == ():
                w = complex(w) if H.is_cplx(y) else float(w)
            use_df.append(w)

    # ---- the call under test
    use_df0 = copy.deepcopy(use_df)
    got = []
    fa = [sig[n] for n in fs]
    ta = [sig[n] for n in ts]
    kw = {}
    if B["explicit"][0]:
        kw["fromsig"] = fa[0] if (len(fa) == 1 and case["bare"]) else fa
    if B["explicit"][1]:
        kw["tosig"] = ta[0] if (len(ta) == 1 and case["bare"]) else ta
    np.random.seed(case["rng_seed"])
    exc = None
    try:
        with contextlib.redirect_stdout(io.StringIO()):
            pym.finite_difference(blk, dx=dx, relative_dx=rel, random=(case["seedmode"] == "random"), use_df=use_df,
                                  test_fn=lambda *a: got.append(a), keep_zero_structure=keep_zero,
                                  verbose=case["verbose"], **kw)
    except Exception as e:
        exc = e

    # ---- expected layout of the tuples
    def layout(skip_scalar_zero):
        L = []
        for n in fs:
            v = full[n]
            for idx, val in _entries(v, x_before[n]):
                if val == 0 and keep_zero and (isinstance(v, np.ndarray) or skip_scalar_zero):
                    continue
                for part in ("r", "i") if np.iscomplexobj(val) else ("r",):
                    for o in ts:
                        L.append((n, idx, val, part, o))
        return L

    lay = layout(True)
    lay_code = layout(False)
    if any(val == 0 for n in fs for _, val in _entries(full[n])):
        labels.append("has_zero_entry")
    if exc is not None:
        cur = lay_code[min(len(got), len(lay_code) - 1)] if lay_code else (fs[0], (), None, "r", ts[0])
        where = f"{kinds[cur[0]]}:{'imag' if cur[3] == 'i' else 'real'}_pass"
        bad(f"raises:{type(exc).__name__}:{where}",
            f"after {len(got)} of {len(lay_code)} tuples, at input {cur[0]}={full[cur[0]]!r}: {exc!r}"[:700])
        return sorted(set(labels)), V
    if len(got) != len(lay):
        if len(got) == len(lay_code):
            zs = [n for n in fs if not isinstance(full[n], np.ndarray) and full[n] == 0]
            bad("zero_structure:scalar_zero_perturbed",
                f"keep_zero_structure=True but the zero-valued scalar input(s) {zs} ({[kinds[n] for n in zs]}) were "
                f"perturbed: {len(got)} tuples instead of {len(lay)}")
            lay = lay_code
        else:
            bad("tuples:count", f"{len(got)} tuples received, {len(lay)} expected "
                                f"(inputs {[(n, np.shape(full[n])) for n in fs]}, {len(ts)} outputs)")
            return sorted(set(labels)), V

    # ---- seeds that were used
    ws = {}
    if plain:
        ws = dict(zip(ts, use_df0))
    else:
        for k, n in enumerate(ts):
            d = sig[n].direct
            if len(d) == 0:
                bad("seed:not_set", f"output {n} never received a seed")
                return sorted(set(labels)), V
            ws[n] = d[-1]
            if use_df is not None and not np.array_equal(np.asarray(d[-1]), np.asarray(use_df0[k])):
                bad("seed:use_df_not_used", f"output {n}: seed {d[-1]!r} but use_df[{k}] = {use_df0[k]!r}")
            want_shape = np.shape(H.dense(full[n]))
            if np.shape(d[-1]) != want_shape:
                bad("seed:shape", f"output {n}: seed shape {np.shape(d[-1])}, output shape {want_shape}")
                return sorted(set(labels)), V

    # ---- after the call: states restored, no sensitivity left
    for n in fs:
        st_now = sig[n].state
        if n in via_base:
            bsig, bits0 = via_base[n]
            if _bits(bsig.state) != bits0:
                bad("restore:value_changed:sliced_source", f"input {n} is a slice of a larger signal whose state is not "
                                                           f"restored: {bsig.state!r}")
            elif _bits(st_now) != bits_before[n]:
                bad("restore:value_changed:array", f"input {n}: before {x_before[n]!r}, after {st_now!r}")
        elif _bits(st_now) != bits_before[n]:
            bad(f"restore:value_changed:{'array' if isinstance(x_before[n], np.ndarray) else 'scalar'}",
                f"input {n}: before {x_before[n]!r}, after {st_now!r}")
    # a kept allocation must be all zero; so must the buffer of a signal whose slices are module inputs (resetting a
    # SignalSlice zeroes its part of the base buffer, it cannot drop it)
    sliced = {"x", "xs"} if case.get("xslice") else set()
    for n in via_base:
        sliced.add(n)
        sig[n + "_base"] = via_base[n][0]
        sliced.add(n + "_base")
    left = [n for n, s in sig.items() if s.sensitivity is not None
            and not ((n in prealloc or n in sliced) and not np.any(s.sensitivity))]
    if left:
        bad("sensitivity_left_set", f"signals with a sensitivity after the call: {left}")

    # ---- analytical values: backpropagate the recorded seeds once more (Module/Network.sensitivity, no FD code)
    for s in sig.values():
        if not plain:
            s.recording = False
    blk.response()
    G = {}
    for n in ts:
        blk.reset()
        sig[n].sensitivity = copy.deepcopy(ws[n])
        blk.sensitivity()
        G[n] = {a: copy.deepcopy(sig[a].sensitivity) for a in fs}
    blk.reset()

    # ---- tuple by tuple
    nops = 4.0 * len(ref.mods) * (max(s.N for s, _, _ in ref.mods) + 4)
    cache = {}
    nz_jac = {n: False for n in fs}
    n_wrong_seen = 0
    for k, (n, idx, val, part, o) in enumerate(lay):
        x0, dxg, an, fd = got[k]
        if not (np.ndim(an) == 0 and np.ndim(fd) == 0 and np.isfinite(an) and np.isfinite(fd)):
            bad("tuples:not_finite_scalar", f"tuple {k}: an={an!r} fd={fd!r}")
            break
        an, fd = float(an), float(fd)
        # source entries are reported bit-exactly; an intermediate signal was computed by the network from arrays whose
        # memory layout may differ from the reference's (BLAS summation order): 1e-12 relative there
        same_x0 = complex(x0) == complex(val) if n in B["sources"] else \
            abs(complex(x0) - complex(val)) <= 1e-12 * max(1.0, abs(complex(val)))
        if not (same_x0 and dxg == dx):
            bad("tuples:x0_dx", f"tuple {k}: reported x0={x0!r}, dx={dxg!r}; expected entry {idx} of {n} = {val!r}, dx={dx}")
            break
        sf = abs(val) if (rel and abs(val) != 0) else 1.0
        h = dx * sf
        key = (n, idx, part)
        if key not in cache:
            direction = 1j if part == "i" else 1.0
            e = np.zeros(np.shape(full[n]), dtype=complex)
            e[idx] = direction
            tang = ref.tangents(full, n, e, frozen)
            # phi along the line, sampled at s = -2..2, for every output separately: exact quartic fit
            samples = []
            for s_ in (-2.0, -1.0, 0.0, 1.0, 2.0):
                pv = dict(full)
                xv = full[n]
                if isinstance(xv, np.ndarray):
                    xp = xv.astype(complex) if part == "i" else xv.copy()
                    xp[idx] = xp[idx] + s_ * direction
                else:
                    xp = xv + s_ * direction
                pv[n] = xp
                samples.append(ref.evaluate(pv, frozen))
            av = {kk: np.abs(H.dense(vv)) for kk, vv in full.items()}
            av[n] = av[n] + abs(h)
            mags = ref.magnitudes(av, frozen)
            cache[key] = (tang, samples, mags)
        tang, samples, mags = cache[key]
        w = np.asarray(ws[o])
        sgn = -1.0 if part == "i" else 1.0
        true = sgn * float(np.real(np.sum(w * tang[o])))
        phis = np.array([float(np.real(np.sum(w * H.dense(smp[o])))) for smp in samples])
        a = np.linalg.solve(np.vander(np.array([-2.0, -1.0, 0.0, 1.0, 2.0]), 5, increasing=True), phis)
        scale_phi = float(np.max(np.abs(phis))) + 1.0
        if abs(sgn * a[1] - true) > 1e-8 * scale_phi:       # oracle self-check: a failure here is a bug of this file
            raise AssertionError(f"reference tangent {true} and reference polynomial {sgn * a[1]} disagree: {case}")
        trunc = 2.0 * (abs(a[2]) * abs(h) + abs(a[3]) * h * h + abs(a[4]) * abs(h) ** 3)
        phi_abs = float(np.sum(np.abs(w).reshape(-1) * np.abs(mags[o]).reshape(-1)))
        rnd = 64.0 * EPS * nops * phi_abs / abs(h)
        tol_fd = trunc + rnd + 1e-12 * abs(true)
        g = G[o][n]
        if g is None:
            an_exp = 0.0
        else:
            gv = g[idx] if isinstance(g, np.ndarray) else g
            an_exp = float(np.imag(gv) if part == "i" else np.real(gv))
        if abs(true) > 1e-9:
            nz_jac[n] = True
        tag = "imag" if part == "i" else "real"
        desc = (f"tuple {k}: d {o} / d {n}{list(idx)} ({tag} direction, x0={val!r}, step={h:g}): reported an={an!r} "
                f"fd={fd!r}; backpropagated value {an_exp!r}, exact derivative {true!r} (allowed fd deviation "
                f"{tol_fd:.3g} = truncation {trunc:.3g} + rounding {rnd:.3g})")
        if abs(an - an_exp) > 1e-12 * max(1.0, abs(an_exp)):
            bad(f"analytical_value:{tag}", desc)
        if abs(fd - true) > tol_fd:
            bad(f"numerical_value:{tag}", desc)
        # matching / non-matching pairs
        gap = abs(an_exp - true)
        if gap <= 1e-9 * max(1.0, abs(true)):
            if abs(an - fd) > tol_fd + 1e-9 * max(1.0, abs(true)):
                bad(f"pair:correct_reported_as_mismatch:{tag}", desc)
        elif gap > 10.0 * tol_fd:
            n_wrong_seen += 1
            if abs(an - fd) < 0.5 * gap:
                bad(f"pair:wrong_sensitivity_not_visible:{tag}", desc)
    if all(nz_jac.values()):
        labels.append("all_inputs_nonzero_jac")
    if wrong:
        labels.append("wrong_entries_seen" if n_wrong_seen else "variant_noop")
    return sorted(set(labels)), V
