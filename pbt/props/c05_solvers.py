"""C05 — every linear solver solves the requested (transposed/adjoint) system.

case = one solver configuration + one matrix of a class the solver documents + 1..4 solve requests
(trans, right-hand-side shape/dtype/dependency, optional initial guess). Oracle = the defining equation, evaluated
with dense numpy algebra on the generated matrix (normwise backward error for direct solvers, relative residual for
CG), plus shape / dtype of the result and "does not raise".
"""
import traceback
import warnings
import numpy as np
import scipy.sparse as sps
from hypothesis import strategies as st
from pbt.harness import viol
from pbt.common import make_matrix, rand_unit, SEED, COMPLEX_ONLY

PROPERTY_ID = "C05"
TOL_DIRECT = 1e-10      # normwise backward error ||op(A)x-b|| / (||A||_2 ||x|| + ||b||), per column (observed <= 2e-14)
CG_FACTOR = 20.0        # relative residual ||op(A)x-b||/||b|| <= 20*tol per column (CG stops at <= tol)

RULE = ("case = solver in {SolverDiagonal, DenseQR, DenseLU, DenseCholesky, DenseLDL(hint), SparseLU, CG(preconditioner in "
        "identity/DampedJacobi/SOR/ILU/GeometricMultigrid; tol, restart), auto_determine_solver(true overrides)} x matrix "
        "class admissible for that solver (diag, spd, sym_indef, herm_pd, herm_indef, herm_posdiag_indef, herm_tinydiag_indef (2x2 blocks with a tiny one-signed diagonal), complex_sym, "
        "general, upper, lower, random off-diagonal sparsity pattern, FE stiffness/Poisson/mass from pymoto assembly on "
        "even 2D/3D grids) built from a prescribed spectrum with bounded condition number, real/complex, dense/csc/csr/"
        "coo(/dia) storage, n=1..8 (14 thorough), x 1..4 solves with trans in N/T/H, rhs shape (n),(n,1),(n,k), real/"
        "complex, dependent/zero columns, optional x0. Non-trivial = n>=3, matrix not diagonal unless the solver is the "
        "diagonal one, and at least one solve whose requested operator is A itself or differs from A (A^T != A for T, "
        "A^H != A for H). Distinct = sha1 of the canonical case JSON.")
ASSUMPTIONS = [
    "matrices are non-singular with 2-norm condition number <= 1e3 (<= 1e2 for CG on spectral classes; FE matrices for "
    "CG are SPD with densities in [0.1,1])",
    "complex right-hand sides are not combined with a real *sparse* matrix through SuperLU-based components "
    "(SparseLU, SOR, ILU, multigrid coarse solver, auto on sparse): documented as unsupported (LinSolve raises TypeError)",
    "CG never receives an all-zero right-hand-side column (0/0 in its relative residual)",
    "Pardiso / CHOLMOD (scikit-sparse, cvxopt) / UMFPACK are not installed and are not exercised",
    "GeometricMultigrid is used on real SPD FE matrices from pymoto assembly on even grids with a convergent symmetric "
    "smoother (DampedJacobi with w*lambda_max(D^-1 A) <= 1.6, SOR 0<w<2), i.e. as an SPD preconditioner",
    "initial guesses have the shape of b, the dtype of the solution and its order of magnitude (exact, zero, or the "
    "solution perturbed by 100 %); a guess many orders larger than the solution limits the attainable residual of CG",
    "trusted base: numpy dense algebra (matmul, 2-norm) for the residual",
]

DENSE_ANY = ["diag", "spd", "sym_indef", "herm_pd", "herm_indef", "herm_posdiag_indef", "herm_tinydiag_indef", "complex_sym", "general",
             "upper", "lower", "pattern"]
KINDS = {
    "diag": ["diag"],
    "qr": DENSE_ANY,
    "lu": DENSE_ANY,
    "chol": ["spd", "herm_pd", "sym_indef", "herm_indef", "herm_posdiag_indef", "herm_tinydiag_indef", "diag_real"],
    "ldl": ["spd", "sym_indef", "herm_pd", "herm_indef", "herm_posdiag_indef", "herm_tinydiag_indef", "complex_sym", "complex_sym", "diag"],
    "splu": DENSE_ANY + ["fe"],
    "cg": ["spd", "herm_pd", "fe", "fe"],
    "auto": DENSE_ANY + ["fe"],
}
# overall scale of the matrix (the property quantifies over every non-singular matrix of a class; conditioning is scale
# invariant). 1e-10 exposes the absolute tolerances (np.allclose atol=1e-8) in pymoto.solvers.matrix_checks.
SCALES = [1.0] * 6 + [1e-3, 1e3, 1e-10, 1e8]
SOLVER_WEIGHTS = ["diag", "qr", "qr", "lu", "lu", "chol", "chol", "chol", "ldl", "ldl", "ldl", "ldl", "splu", "splu",
                  "cg", "cg", "cg", "cg", "cg", "cg", "auto", "auto", "auto", "auto"]


def budget(tier):
    return {"examples": 12000 if tier == "quick" else 160000, "shards": 16, "shrink": 300 if tier == "quick" else 1500}


# ---------------------------------------------------------------------------------------------------------------
# strategy
def strategy(tier):
    big = tier != "quick"

    @st.composite
    def fe_spec(draw):
        dim = draw(st.sampled_from([2, 2, 3]))
        if dim == 2:
            ch = [2, 4, 6, 8] if big else [2, 4, 6]
            nel = [draw(st.sampled_from(ch)), draw(st.sampled_from(ch)), 0]
        else:
            nel = [draw(st.sampled_from([2, 4] if big else [2, 2, 4])) for _ in range(3)]
            if not big and nel.count(4) == 3:
                nel[2] = 2
        unit = [draw(st.sampled_from([1.0, 1.0, 0.5, 2.0, 1.3])) for _ in range(3)]
        phys = draw(st.sampled_from(["stiff", "poisson", "mass"]))
        return {"nel": nel, "unit": unit, "phys": phys, "ndof": draw(st.integers(1, 3)),
                "side": draw(st.integers(0, 2 * dim - 1)), "csr": draw(st.booleans())}

    @st.composite
    def precond(draw, kind, storage):
        if kind == "fe":
            name = draw(st.sampled_from(["mg", "mg", "mg", "mg", "mg", "none", "jacobi", "sor", "ilu"]))
        elif storage == "dense":
            name = draw(st.sampled_from(["none", "none_default", "jacobi"]))
        else:
            name = draw(st.sampled_from(["none", "none_default", "jacobi", "sor", "ilu"]))
        p = {"name": name}
        if name == "jacobi":
            p["w"] = draw(st.sampled_from([1.0, 0.5, 0.25, 0.8]))
        if name == "sor":
            p["w"] = draw(st.sampled_from([1.0, 0.5, 1.5, 1.8, 0.2]))
        if name == "mg":
            p["cycle"] = draw(st.sampled_from(["V", "W", "v"]))
            p["smoother"] = draw(st.sampled_from(["default", "jacobi", "sor"]))
            p["wfrac"] = draw(st.sampled_from([0.3, 0.5, 0.8]))     # jacobi: w = min(1, wfrac*2/lambda_max)
            p["sor_w"] = draw(st.sampled_from([1.0, 0.6, 1.4]))
            p["steps"] = draw(st.sampled_from([None, 1, 2, 3]))      # None = default (5)
            p["nest"] = draw(st.booleans())
            p["ctor_A"] = draw(st.booleans())
        return p

    @st.composite
    def rhs_spec(draw, allow_cplx, allow_zero):
        shape = draw(st.sampled_from(["v", "c1", "ck", "ck"]))
        k = draw(st.integers(2, 4)) if shape == "ck" else 1
        r = {"shape": shape, "k": k, "cplx": bool(allow_cplx and draw(st.booleans()))}
        if shape == "ck":
            r["dep"] = draw(st.sampled_from(["no", "no", "repeat", "combo"]))
        else:
            r["dep"] = "no"
        r["zero"] = draw(st.sampled_from(["no"] * 7 + ["col", "all"])) if allow_zero else "no"
        # magnitude of the right-hand side: the solve is linear in b, so a load of 1e-12 or 1e6 is solved as accurately
        # (relative to itself) as one of order 1; "cols" scales the columns of a block differently
        r["bscale"] = draw(st.sampled_from([1.0, 1.0, 1.0, 1.0, 1e-9, 1e-12, 1e6, "cols"]))
        return r

    @st.composite
    def case(draw):
        solver = draw(st.sampled_from(SOLVER_WEIGHTS))
        kind = draw(st.sampled_from(KINDS[solver]))
        c = {"solver": solver, "kind": kind, "payload_seed": draw(SEED)}
        c["n"] = draw(st.sampled_from([1, 2, 3, 3, 4, 4, 5, 5, 6, 7, 8] + ([9, 10, 12, 14] if big else [])))
        if kind == "fe":
            c["fe"] = draw(fe_spec())
            c["storage"] = "csr" if c["fe"]["csr"] else "csc"
            c["cplx"] = False
        else:
            if solver in ("qr", "lu", "chol", "ldl"):
                c["storage"] = "dense"
            elif solver == "splu":
                c["storage"] = draw(st.sampled_from(["csc", "csr", "coo"]))
            elif solver == "diag":
                c["storage"] = draw(st.sampled_from(["dense", "csc", "csr", "coo", "dia"]))
            else:
                c["storage"] = draw(st.sampled_from(["dense", "dense", "csc", "csr", "coo", "diafull", "dia0", "lil"]))
            c["dense_layout"] = draw(st.sampled_from(["C", "C", "F", "subblock", "strided", "realpart"]))
            if kind in COMPLEX_ONLY:
                c["cplx"] = True
            elif kind in ("sym_indef", "diag_real"):
                c["cplx"] = False       # complex "sym_indef" is herm_indef
            elif kind == "spd":
                c["cplx"] = False       # complex "spd" is herm_pd
            else:
                c["cplx"] = draw(st.booleans())
        c["cond"] = draw(st.sampled_from([10.0, 100.0] if solver == "cg" else [10.0, 100.0, 1000.0]))
        c["scale"] = draw(st.sampled_from(SCALES))
        c["int_dtype"] = draw(st.sampled_from([False, False, False, True]))   # integer-typed (real) matrix entries
        c["ctor"] = draw(st.booleans())          # pass A to the constructor instead of calling update()
        if solver == "ldl":
            c["hint"] = draw(st.booleans())      # give the (true) hermitian flag
        if solver == "auto":
            c["hints"] = draw(st.lists(st.sampled_from(["isdiagonal", "islowertriangular", "isuppertriangular",
                                                        "ishermitian", "issymmetric", "ispositivedefinite"]),
                                       unique=True, max_size=3))
        if solver == "cg":
            c["precond"] = draw(precond(kind, c["storage"]))
            c["tol"] = draw(st.sampled_from([None, None, 1e-5, 1e-9] + ([] if kind == "fe" else [1e-11])))
            c["restart"] = draw(st.sampled_from([None, None, 1, 2, 7]))
            c["maxit"] = draw(st.sampled_from(["default", "bound"]))
        real_sparse = c["storage"] != "dense" and not c["cplx"]
        superlu = solver in ("splu", "auto") or (solver == "cg" and c["precond"]["name"] in ("sor", "ilu", "mg"))
        allow_cplx = not (real_sparse and superlu)
        nsolve = draw(st.integers(1, 4))
        solves = []
        for _ in range(nsolve):
            s = {"trans": draw(st.sampled_from(["N", "T", "H"])),
                 "rhs": draw(rhs_spec(allow_cplx, solver != "cg")),
                 "x0": draw(st.sampled_from(["none", "none", "rand", "exact", "zero", "exact_some"]))}
            solves.append(s)
        c["solves"] = solves
        c["reupdate"] = draw(st.sampled_from(["none", "none", "new", "inplace"]))
        return c
    return case()


def nontrivial(labels):
    return "nontrivial" in labels


# ---------------------------------------------------------------------------------------------------------------
# construction helpers (own code; pymoto is only used for FE assembly, which the property requires for multigrid)
def pattern_matrix(n, rng, cplx, density):
    """Random off-diagonal sparsity pattern, strictly diagonally dominant (non-singular, well conditioned)."""
    mask = rng.random((n, n)) < density
    np.fill_diagonal(mask, False)
    v = rand_unit(rng, (n, n), cplx)
    v = np.where(np.abs(v) < 0.2, 0.2 + np.abs(v), v) * mask
    d = np.abs(v).sum(axis=1) * (1.0 + rng.random(n)) + 0.5 + rng.random(n)
    sg = np.where(rng.random(n) < 0.5, -1.0, 1.0)
    if cplx:
        sg = sg * np.exp(1j * rng.uniform(0, 2 * np.pi, n))
    return v + np.diag(d * sg)


def fe_matrix(spec, rng):
    import pymoto as pym
    nx, ny, nz = spec["nel"]
    dom = pym.DomainDefinition(nx, ny, nz, unitx=spec["unit"][0], unity=spec["unit"][1], unitz=spec["unit"][2])
    x = 0.1 + 0.9 * rng.random(dom.nel)
    sx = pym.Signal("x", x)
    mt = sps.csr_matrix if spec["csr"] else sps.csc_matrix
    dim = dom.dim
    phys = spec["phys"]
    ndof = dim if phys == "stiff" else (1 if phys == "poisson" else spec["ndof"])
    # clamp one face of the grid (all dofs of its nodes)
    idx = [slice(None)] * dim
    ax, hi = spec["side"] // 2, spec["side"] % 2
    idx[ax] = -1 if hi else 0
    nodes = np.asarray(dom.nodes).reshape([nx + 1, ny + 1] + ([nz + 1] if dim == 3 else []))[tuple(idx)].flatten()
    bc = np.sort(np.concatenate([nodes * ndof + d for d in range(ndof)]))
    if phys == "stiff":
        m = pym.AssembleStiffness(sx, domain=dom, bc=bc, matrix_type=mt)
    elif phys == "poisson":
        m = pym.AssemblePoisson(sx, domain=dom, bc=bc, matrix_type=mt)
    else:
        m = pym.AssembleMass(sx, domain=dom, ndof=ndof, matrix_type=mt)     # SPD without boundary conditions
    m.response()
    return dom, m.sig_out[0].state, ndof


def cg_iteration_bound(Ad, p, tol, prepared):
    """A number of iterations within which preconditioned CG must have converged (used as the documented `maxit`).
    identity/Jacobi/SOR: classical bound ||r_k||/||r_0|| <= 2 sqrt(kappa(A)) rho^k, rho = (sqrt(k_eff)-1)/(sqrt(k_eff)+1),
    with k_eff = kappa(M^-1 A) computed here by dense algebra from the documented definition of M; doubled, +10.
    ILU / multigrid: finite termination of PCG (n steps), doubled, +20."""
    import scipy.linalg as sla
    n = Ad.shape[0]
    if p["name"] in ("ilu", "mg"):
        return 2 * n + 20
    wA = np.linalg.eigvalsh(Ad)
    kA = wA[-1] / wA[0]
    d = np.diag(Ad).real
    if p["name"] in ("none", "none_default"):
        keff = kA
    elif p["name"] == "jacobi":
        dinv = 1.0 / np.sqrt(d)
        w = np.linalg.eigvalsh(Ad * np.outer(dinv, dinv))
        keff = w[-1] / w[0]
    else:  # SOR: M = (D/w + L) (w D^-1 / (2-w)) (D/w + U)
        w_ = p["w"]
        L, U, D = np.tril(Ad, -1), np.triu(Ad, 1), np.diag(d)
        M = (D / w_ + L) @ np.diag(w_ / ((2 - w_) * d)) @ (D / w_ + U)
        M = 0.5 * (M + M.conj().T)
        w = sla.eigh(Ad, M, eigvals_only=True)
        keff = w[-1] / w[0]
    F = 1.0      # ||r_0|| / ||b||, largest over all requested solves (x0 given)
    for tr, opA, b, rdt, x0 in prepared:
        if x0 is not None:
            B, X0 = b.reshape(n, -1), x0.reshape(n, -1)
            F = max(F, float(np.max(np.linalg.norm(B - opA @ X0, axis=0) / np.linalg.norm(B, axis=0))))
    sk = np.sqrt(max(keff, 1.0))
    if sk - 1.0 < 1e-8:
        k = 1
    else:
        rho = (sk - 1.0) / (sk + 1.0)
        k = int(np.ceil(np.log(2.0 * np.sqrt(kA) * F / tol) / np.log(1.0 / rho)))
    return 2 * max(k, 1) + 10


def to_storage(Ad, storage, layout="C"):
    if storage == "dense":
        # memory layout of a dense matrix: C / Fortran order, or a non-contiguous view (a sub-block of a larger array,
        # every second row and column of one, the real part of a complex array)
        n = Ad.shape[0]
        if layout == "F":
            return np.asfortranarray(Ad)
        if layout == "subblock":
            big = np.zeros((n + 2, n + 3), dtype=Ad.dtype)
            big[1:n + 1, 2:n + 2] = Ad
            return big[1:n + 1, 2:n + 2]
        if layout == "strided":
            big = np.zeros((2 * n, 2 * n), dtype=Ad.dtype)
            big[::2, ::2] = Ad
            return big[::2, ::2]
        if layout == "realpart" and Ad.dtype.kind == "f":
            return (Ad + 1j * Ad[::-1, ::-1]).real
        return Ad
    if storage == "csc":
        return sps.csc_matrix(Ad)
    if storage == "csr":
        return sps.csr_matrix(Ad)
    if storage == "coo":
        return sps.coo_matrix(Ad)
    if storage == "dia":
        return sps.spdiags(np.diag(Ad), 0, Ad.shape[0], Ad.shape[1])
    if storage in ("diafull", "dia0"):      # general matrices in DIA storage; dia0 stores the main diagonal first
        d = sps.dia_matrix(Ad)
        if storage == "dia0" and 0 in d.offsets:
            order = np.argsort(d.offsets != 0, kind="stable")
            d = sps.dia_matrix((d.data[order], d.offsets[order]), shape=d.shape)
        return d
    if storage == "lil":
        return sps.lil_matrix(Ad)
    raise ValueError(storage)


def make_rhs(spec, n, rng):
    k = spec["k"]
    b = rand_unit(rng, (n, k), spec["cplx"])
    if spec["dep"] == "repeat" and k >= 2:
        b[:, k - 1] = b[:, 0]
    elif spec["dep"] == "combo" and k >= 2:
        co = rand_unit(rng, (k - 1,), spec["cplx"])
        b[:, k - 1] = b[:, :k - 1] @ co
    if spec["zero"] == "col":
        b[:, int(rng.integers(0, k))] = 0.0
    elif spec["zero"] == "all":
        b[:] = 0.0
    bs = spec.get("bscale", 1.0)
    if bs == "cols":
        b = b * np.array([1.0, 1e-9, 1e6, 1e-4])[:k][None, :]
    elif bs != 1.0:
        b = b * bs
    if spec["shape"] == "v":
        b = b[:, 0].copy()
    return b


# ---------------------------------------------------------------------------------------------------------------
def check_case(case):
    import pymoto as pym
    S = pym.solvers
    rng = np.random.default_rng(case["payload_seed"])
    solver, kind, storage = case["solver"], case["kind"], case["storage"]
    labels = [f"solver:{solver}", f"kind:{kind}", f"storage:{storage}"]
    V = []

    # ---- matrix -------------------------------------------------------------------------------------------
    dom = None
    if kind == "fe":
        dom, A, fe_ndof = fe_matrix(case["fe"], rng)
        A = A * case["scale"]
        Ad = A.toarray()
        labels += [f"fe:{case['fe']['phys']}", f"fe:dim{dom.dim}"]
    else:
        n = case["n"]
        if kind == "pattern":
            Ad = pattern_matrix(n, rng, case["cplx"], float(rng.choice([0.15, 0.3, 0.6])))
        elif kind == "diag_real":
            Ad = make_matrix("diag", n, rng, False, case["cond"])
        else:
            # (triangular kinds: make_matrix cannot reach cond < 100 without shrinking the off-diagonal part to ~1e-9)
            Ad = make_matrix(kind, n, rng, case["cplx"], max(case["cond"], 100.0) if kind in ("upper", "lower")
                             else case["cond"])
        Ad = Ad * case["scale"]
        if case.get("int_dtype") and not np.iscomplexobj(Ad) and case["scale"] == 1.0 and solver != "cg":
            # an integer-typed matrix of the same class: entries rounded to multiples of 1/8, times 8, stored as int64;
            # used only if it is still a well-conditioned member of the class
            Ai = np.rint(Ad * 8.0).astype(np.int64)
            ok = np.linalg.matrix_rank(Ai) == n and np.linalg.cond(Ai.astype(float)) <= 50.0 * case["cond"]
            if ok and kind in ("spd",):
                ok = np.linalg.eigvalsh(Ai.astype(float)).min() > 0.5
            if ok and kind in ("herm_posdiag_indef",):
                ok = bool(np.all(np.diag(Ai) > 0) and np.linalg.eigvalsh(Ai.astype(float)).min() < -0.5)
            if ok:
                Ad = Ai
                labels.append("A:int_dtype")
        lay = case.get("dense_layout", "C")
        if lay == "F" and Ad.dtype.kind in "iu":
            # scipy 1.18.1: scipy.linalg.lu returns a wrong factorisation (P L U != A) for an integer-typed Fortran-ordered
            # array (float F-ordered and integer C-ordered ones are fine): a defect of the trusted base, not of pyMOTO's
            # SolverDenseLU, so this one combination is not generated
            lay = "C"
            labels.append("int_fortran_order_excluded")
        case = dict(case, dense_layout=lay)
        A = to_storage(Ad, storage, lay)
        if storage == "dense" and not (A.flags.c_contiguous or A.flags.f_contiguous):
            labels.append("dense_noncontiguous")
        elif storage == "dense" and not A.flags.c_contiguous:
            labels.append("dense_fortran_order")
    n = Ad.shape[0]
    cplxA = bool(np.iscomplexobj(Ad))
    labels.append("A:complex" if cplxA else "A:real")
    if case["scale"] != 1.0:
        labels.append("scaled")
    tiny = ":scaled" if (case["scale"] <= 1e-6) else ""
    offd = Ad - np.diag(np.diag(Ad))
    is_diag = not offd.any()
    is_sym = bool((Ad == Ad.T).all())
    is_herm = bool((Ad == Ad.conj().T).all())
    normA = float(np.linalg.norm(Ad, 2))

    # ---- right-hand sides and initial guesses (generated before the solver is built: the CG iteration bound needs them)
    prepared = []
    for s in case["solves"]:
        tr = s["trans"]
        opA = Ad if tr == "N" else (Ad.T if tr == "T" else Ad.conj().T)
        b = make_rhs(s["rhs"], n, rng)
        rdt = np.result_type(Ad.dtype, b.dtype)
        x0 = None
        if s["x0"] != "none":
            if s["x0"] == "exact":
                x0 = np.linalg.solve(opA, b).astype(rdt)
            elif s["x0"] == "zero":
                x0 = np.zeros(b.shape, dtype=rdt)
            else:   # a guess of the right magnitude: the solution perturbed by 100 % (column-wise)
                xe = np.linalg.solve(opA, b).astype(rdt)
                pert = rand_unit(rng, b.shape, rdt.kind == "c").astype(rdt)
                x0 = xe + pert * (np.linalg.norm(xe, axis=0) / np.maximum(np.linalg.norm(pert, axis=0), 1e-300))
                if s["x0"] == "exact_some" and b.ndim == 2 and b.shape[1] >= 2:
                    x0[:, ::2] = xe[:, ::2]     # the guess is already exact for some of the right-hand sides only
        prepared.append((tr, opA, b, rdt, x0))

    # ---- solver object ------------------------------------------------------------------------------------
    def build():
        if solver == "diag":
            return S.SolverDiagonal, {}
        if solver == "qr":
            return S.SolverDenseQR, {}
        if solver == "lu":
            return S.SolverDenseLU, {}
        if solver == "chol":
            return S.SolverDenseCholesky, {}
        if solver == "ldl":
            return S.SolverDenseLDL, ({"hermitian": is_herm} if case["hint"] else {})
        if solver == "splu":
            return S.SolverSparseLU, {}
        if solver == "cg":
            kw = {}
            p = case["precond"]
            if p["name"] == "none":
                kw["preconditioner"] = S.Preconditioner()
            elif p["name"] == "jacobi":
                kw["preconditioner"] = S.DampedJacobi(w=p["w"])
            elif p["name"] == "sor":
                kw["preconditioner"] = S.SOR(w=p["w"])
            elif p["name"] == "ilu":
                kw["preconditioner"] = S.ILU()
            elif p["name"] == "mg":
                dinv = 1.0 / np.sqrt(np.diag(Ad))
                lmax = float(np.linalg.eigvalsh(Ad * np.outer(dinv, dinv))[-1])
                sm = p["smoother"]
                if sm == "default" and 0.5 * lmax > 1.6:
                    sm = "jacobi"
                if sm == "default":
                    smoother = None
                elif sm == "jacobi":
                    smoother = S.DampedJacobi(w=float(min(1.0, round(p["wfrac"] * 2.0 / lmax, 3))))
                else:
                    smoother = S.SOR(w=p["sor_w"])
                labels.append(f"mg:smoother:{sm}")
                mkw = {"cycle": p["cycle"], "smoother": smoother}
                if p["steps"] is not None:
                    mkw["smooth_steps"] = p["steps"]
                if p["ctor_A"]:
                    mkw["A"] = A
                mg = S.GeometricMultigrid(dom, **mkw)
                if p["nest"] and all(v % 4 == 0 for v in case["fe"]["nel"]):
                    mg.inner_level = S.GeometricMultigrid(mg.sub_domain)
                    labels.append("mg:nested")
                kw["preconditioner"] = mg
            if case["tol"] is not None:
                kw["tol"] = case["tol"]
            if case["restart"] is not None:
                kw["restart"] = case["restart"]
            if case["maxit"] == "bound":
                kw["maxit"] = cg_iteration_bound(Ad, p, case["tol"] if case["tol"] is not None else 1e-7, prepared)
                labels.append("cg:maxit_bound")
            labels.append(f"precond:{p['name']}")
            return S.CG, kw
        raise ValueError(solver)

    warns = []
    try:
        with warnings.catch_warnings(record=True) as wl:
            warnings.simplefilter("always")
            if solver == "auto":
                truth = {"isdiagonal": is_diag, "islowertriangular": not np.triu(Ad, 1).any(),
                         "isuppertriangular": not np.tril(Ad, -1).any(), "ishermitian": is_herm,
                         "issymmetric": is_sym, "ispositivedefinite": kind in ("spd", "herm_pd", "fe")}
                hints = {h: truth[h] for h in case["hints"]}
                if "ispositivedefinite" in hints and not hints["ispositivedefinite"]:
                    del hints["ispositivedefinite"]       # "not known to be PD" is the default; False is not a claim we make
                obj = S.auto_determine_solver(A, **hints)
                obj.update(A)
                cname = "auto->" + type(obj).__name__
                labels.append(cname)
                if hints:
                    labels.append("auto:hints")
            else:
                cls, kw = build()
                if case["ctor"]:
                    obj = cls(A, **kw) if cls is not S.CG else cls(A=A, **kw)
                    labels.append("ctor")
                else:
                    obj = cls(**kw)
                    obj.update(A)
                cname = cls.__name__
            warns += [str(w.message) for w in wl]
    except Exception as e:
        V.append(viol(f"C05:raises:update:{solver}:{type(e).__name__}{tiny}",
                      f"{_desc(case, n)}: {traceback.format_exc()[-700:]}"))
        return labels, V
    comp = cname if solver != "cg" else f"CG[{case['precond']['name']}]"
    if solver == "chol":
        backup = any("instead" in w for w in warns)       # "... -- using SolverDenseLDL instead"
        labels.append("chol:backup" if backup else "chol:direct")
        comp += "[backup]" if backup else ""
    cg_tol = (case["tol"] if case["tol"] is not None else 1e-7) if solver == "cg" else None

    # ---- solves -------------------------------------------------------------------------------------------
    nt = False
    for s, prep in zip(case["solves"], prepared):
        tr, opA, b, rdt, x0 = prep
        labels += [f"trans:{tr}", f"rhs:{s['rhs']['shape']}", "rhs:complex" if np.iscomplexobj(b) else "rhs:real"]
        if s["rhs"]["dep"] != "no":
            labels.append("rhs:dependent")
        if s["rhs"]["zero"] != "no":
            labels.append("rhs:zero_" + s["rhs"]["zero"])
        if s["rhs"].get("bscale", 1.0) != 1.0:
            labels.append(f"rhs:scale_{s['rhs']['bscale']}")
        if x0 is not None:
            labels.append("x0:" + s["x0"])
        differs = tr == "N" or (tr == "T" and not is_sym) or (tr == "H" and not is_herm)
        if differs and tr != "N":
            labels.append(f"trans:{tr}:differs")
        if n >= 3 and (not is_diag or solver == "diag") and differs:
            nt = True
        b_in = b.copy()
        try:
            with warnings.catch_warnings(record=True) as wl:
                warnings.simplefilter("always")
                x = obj.solve(b, x0=x0, trans=tr) if x0 is not None else obj.solve(b, trans=tr)
            w_solve = [str(w.message) for w in wl]
        except Exception as e:
            V.append(viol(f"C05:raises:solve:{comp}:{type(e).__name__}{tiny}",
                          f"{_desc(case, n)} trans={tr} rhs={s['rhs']} x0={s['x0']}: {traceback.format_exc()[-700:]}"))
            continue
        info = f"{_desc(case, n)} trans={tr} rhs={s['rhs']} x0={s['x0']}"
        x = np.asarray(x)
        if x.shape != b.shape:
            V.append(viol(f"C05:shape:{comp}", f"x.shape={x.shape} b.shape={b.shape} | {info}"))
            continue
        if x.dtype != rdt:
            V.append(viol(f"C05:dtype:{comp}", f"x.dtype={x.dtype}, expected {rdt} (A {Ad.dtype}, b {b.dtype}) | {info}"))
        if not np.array_equal(b, b_in):
            V.append(viol(f"C05:rhs_modified:{comp}", info))
        X = x.reshape(n, -1)
        B = b.reshape(n, -1)
        if not np.all(np.isfinite(X)):
            V.append(viol(f"C05:residual:{comp}:" + (tiny[1:] if tiny else tr), f"non-finite solution | {info}"))
            continue
        R = np.linalg.norm(opA @ X - B, axis=0)
        nx_, nb_ = np.linalg.norm(X, axis=0), np.linalg.norm(B, axis=0)
        if solver == "cg":
            bound = CG_FACTOR * cg_tol * nb_
            if any("Maximum iterations" in w for w in w_solve):
                V.append(viol(f"C05:cg_maxit:{comp}", f"CG did not converge: {w_solve[:1]} | {info}"))
        else:
            bound = TOL_DIRECT * (normA * nx_ + nb_)
        if np.any(R > bound):
            j = int(np.argmax(R - bound))
            V.append(viol(f"C05:residual:{comp}:" + (tiny[1:] if tiny else tr),
                          f"column {j}: ||op(A)x-b||={R[j]:.3e} > bound {bound[j]:.3e} (||A||={normA:.3e}, ||x||={nx_[j]:.3e},"
                          f" ||b||={nb_[j]:.3e}) | {info}",
                          sig={"component": comp, "trans": tr, "ratio": float(R[j] / max(bound[j], 1e-300))}))
    # ---- second stage: the matrix changes (here: 2.5 A, every class is preserved) and update() is called again, with
    # a new matrix object or with the new values written into the object handed over before; the first right-hand side
    # is solved once more
    re = case.get("reupdate", "none")
    if re != "none" and prepared and Ad.dtype.kind in "fc" and not V:
        fac = 2.5
        tr, _, b, rdt, _ = prepared[0]
        Ad2 = Ad * fac
        try:
            writable = A.flags.writeable if storage == "dense" else (A.data.flags.writeable and A.data.dtype != object)
            if re == "inplace" and writable:
                if storage == "dense":
                    A[...] = Ad2
                else:
                    A.data[...] = A.data * fac
                labels.append("reupdate:inplace")
            else:
                A = to_storage(Ad2, storage, case.get("dense_layout", "C"))
                labels.append("reupdate:new_object")
            obj.update(A)
            x = np.asarray(obj.solve(b, trans=tr))
        except Exception as e:
            V.append(viol(f"C05:raises:reupdate:{comp}:{type(e).__name__}{tiny}",
                          f"{_desc(case, n)} trans={tr}: {traceback.format_exc()[-700:]}"))
            return sorted(set(labels)), V
        opA2 = Ad2 if tr == "N" else (Ad2.T if tr == "T" else Ad2.conj().T)
        if x.shape == b.shape and np.all(np.isfinite(x)):
            X, B = x.reshape(n, -1), b.reshape(n, -1)
            R = np.linalg.norm(opA2 @ X - B, axis=0)
            nx_, nb_ = np.linalg.norm(X, axis=0), np.linalg.norm(B, axis=0)
            bound = CG_FACTOR * cg_tol * nb_ if solver == "cg" else TOL_DIRECT * (fac * normA * nx_ + nb_)
            if np.any(R > bound):
                j = int(np.argmax(R - bound))
                V.append(viol(f"C05:residual_after_reupdate:{comp}",
                              f"after update() with 2.5*A ({re}): column {j}: ||op(A)x-b||={R[j]:.3e} > bound {bound[j]:.3e} "
                              f"| {_desc(case, n)} trans={tr}"))
        else:
            V.append(viol(f"C05:residual_after_reupdate:{comp}", f"shape {x.shape} / non-finite solution after re-update"))
    if nt:
        labels.append("nontrivial")
    return sorted(set(labels)), V


def _desc(case, n):
    return (f"solver={case['solver']} kind={case['kind']} n={n} storage={case['storage']} cplx={case['cplx']} "
            f"cond={case['cond']} scale={case['scale']} seed={case['payload_seed']}"
            + (f" precond={case['precond']} tol={case['tol']} restart={case['restart']}" if case['solver'] == 'cg' else "")
            + (f" hints={case['hints']}" if case['solver'] == 'auto' else "")
            + (f" hint={case['hint']}" if case['solver'] == 'ldl' else "")
            + (f" fe={case['fe']}" if case['kind'] == 'fe' else ""))
