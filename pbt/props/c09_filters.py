"""C09 — density filters are the normalised local averages they are defined to be (FilterConv, DensityFilter)."""
import itertools
import traceback
import numpy as np
from hypothesis import strategies as st
from pbt.harness import viol
from pbt.common import domain_strategy, make_domain, SEED

PROPERTY_ID = "C09"
RULE = ("case = domain (2D/3D, sizes from 1, anisotropic element sizes) + one of {FilterConv with radius (relative/"
        "absolute units), FilterConv with an explicit odd kernel (non-negative normalised, mirror-symmetric, signed, "
        "asymmetric ramp, off-centre delta; half-width 0..n per axis, about 1/6 with half-width n..n+2 on axes with n<=3, "
        "a fifth of those steered to symmetric-min/constant-max), DensityFilter "
        "(optionally with nonpadding)} + the six boundary modes (symmetric/edge/wrap/constants, schemes all-symmetric, "
        "no-constant, free) + a list of value overrides (domain boxes/masks/points, padded-region boxes) + a field kind "
        "(random, constant, delta, 0/1 plateaus, signed); bulk numbers from default_rng(payload_seed). Oracle: own "
        "direct convolution with the per-side ideal extension / own O(nel^2) cone average. Non-trivial = the kernel "
        "(or cone window) has non-zero weight at a non-zero offset, i.e. it reaches across at least one boundary, and "
        "the field is not constant. Distinct = sha1 of the canonical case.")
ASSUMPTIONS = [
    "DensityFilter radius is in element-index units (docstring: 'in absolute units of elements'); element sizes are ignored",
    "FilterConv radius kernels are capped at half-width n per axis by the code (pad <= n); the cone is checked on "
    "that support and must contain every offset |d_a| <= n_a with positive cone weight",
    "two readings are accepted as any-of (label 'ambiguous'): an axis padded wider than the domain (explicit kernels "
    "wider than 2n+1 only) with different modes on its two sides (ideal per side / either sequential order), and "
    "corners where different constants meet (any axis priority)",
    "override_values: the padding may read either the original or the overridden domain values (undocumented; any-of, "
    "label 'override_ambiguous' when the two differ)",
    "known finding C09-wide-kernel-placeholder-leak: a failing value check is compared with an explicit model of that "
    "defect (index-0 placeholders of the max-side constant pad reflected into the min side); only an exact match gets "
    "bucket C09:conv:value:wide_mixed + sig, everything else stays an unexplained violation",
    "z boundary modes are only passed for 3D domains (documented 'only in 3D'); real float64 fields only",
    "element numbering e = (k*nely + j)*nelx + i (documented by get_elemnumber, verified by C13)",
]

MODES = ["symmetric", "edge", "wrap"]
CONSTS = [0.0, 1.0, 0, 0.5, -1.0, 1]
TOL = 1e-12


def _exc(e):
    fr = traceback.extract_tb(e.__traceback__)[-1]
    return f"{type(e).__name__}: {e} (at {fr.filename.split('/pymoto/')[-1]}:{fr.lineno} in {fr.name})"


def budget(tier):
    return {"examples": 8000 if tier == "quick" else 80000, "shards": 16, "shrink": 300 if tier == "quick" else 1500}


# ----------------------------------------------------------------------------------------------------------------
def strategy(tier):
    @st.composite
    def case(draw):
        dom = draw(domain_strategy(tier))
        nel = dom["nel"]
        dim = 2 if nel[2] == 0 else 3
        n = [nel[0], nel[1], max(nel[2], 1)]
        kind = draw(st.sampled_from(["conv_radius", "conv_radius", "conv_kernel", "conv_kernel", "conv_kernel",
                                     "density", "density"]))
        c = {"dom": dom, "kind": kind, "payload_seed": draw(SEED),
             "field": draw(st.sampled_from(["rand", "rand", "plateau", "delta", "signed", "const", "int01", "int"]))}
        rmax = 1.5 * max(n)
        radius = draw(st.one_of(st.sampled_from([0.3, 1.0, 1.5, 2.0, 3.0]),
                                st.floats(0.3, max(rmax, 0.4), allow_nan=False).map(lambda v: round(v, 3))))
        if kind == "density":
            c["radius"] = draw(st.one_of(st.just(radius), st.integers(1, 4)))
            c["nonpadding"] = draw(st.sampled_from([None, None, None, "some", "all", "none"]))
            return c
        if kind == "conv_radius":
            c["relative"] = draw(st.sampled_from([True, False]))
            if not c["relative"]:
                radius = round(radius * draw(st.sampled_from([1.0, min(dom["unit"][:dim]), max(dom["unit"][:dim])])), 4)
            c["radius"] = max(radius, 0.05)
            c["radius_int"] = draw(st.booleans()) and float(c["radius"]).is_integer()
        else:
            wide = draw(st.sampled_from([False] * 5 + [True]))
            half = []
            for a in range(3):
                if a == 2 and dim == 2:
                    half.append(0)
                elif wide and n[a] <= 3:
                    half.append(draw(st.integers(n[a], n[a] + 2)))
                else:
                    half.append(draw(st.integers(0, n[a])))
            c["half"] = half
            c["ktype"] = draw(st.sampled_from(["nonneg", "mirror", "signed", "ramp", "delta_off", "nonneg"]))
            nd = [3]
            if half[2] == 0:
                nd.append(2)
            c["arr_ndim"] = draw(st.sampled_from(nd))
        scheme = draw(st.sampled_from(["all_symmetric", "no_const", "free", "free"]))
        bc = []
        for s in range(2 * dim):
            if scheme == "all_symmetric":
                bc.append("symmetric")
            elif scheme == "no_const":
                bc.append(draw(st.sampled_from(MODES)))
            else:
                bc.append(draw(st.one_of(st.sampled_from(MODES), st.sampled_from(CONSTS))))
        if kind == "conv_kernel" and wide and draw(st.integers(0, 4)) == 0:
            # steer a share of the wide kernels into the class of the known finding (symmetric min, constant max)
            cand = [a for a in range(dim) if c["half"][a] > n[a]]
            if cand:
                a = draw(st.sampled_from(cand))
                bc[2 * a] = "symmetric"
                bc[2 * a + 1] = draw(st.sampled_from(CONSTS))
        c["bc"] = bc
        nov = draw(st.sampled_from([0, 0, 0, 1, 2]))
        ovs = []
        for _ in range(nov):
            where = draw(st.sampled_from(["dom", "dom", "pad"]))
            okind = draw(st.sampled_from(["box", "mask", "pts"])) if where == "dom" else "box"
            ovs.append({"where": where, "kind": okind,
                        "a": [draw(st.integers(0, 7)) for _ in range(3)],
                        "b": [draw(st.integers(0, 7)) for _ in range(3)],
                        "value": draw(st.sampled_from([0.0, 1.0, 0.25, -2.0]))})
        c["overrides"] = ovs
        return c
    return case()


def nontrivial(labels):
    return "reaches_boundary" in labels and "field_nonconst" in labels


# ----------------------------------------------------------------------------------------------------------------
# helpers: own numbering and fields
def _to3(x, n):
    """flat field -> X[i,j,k] with e = (k*ny + j)*nx + i"""
    nx, ny, nz = n
    X = np.empty((nx, ny, nz), dtype=x.dtype)
    for k in range(nz):
        for j in range(ny):
            for i in range(nx):
                X[i, j, k] = x[(k * ny + j) * nx + i]
    return X


def _to_flat(Y, n):
    nx, ny, nz = n
    y = np.empty(nx * ny * nz, dtype=Y.dtype)
    for k in range(nz):
        for j in range(ny):
            for i in range(nx):
                y[(k * ny + j) * nx + i] = Y[i, j, k]
    return y


def _field(kind, nel, rng):
    if kind == "rand":
        return rng.random(nel)
    if kind == "signed":
        return rng.standard_normal(nel)
    if kind == "const":
        return np.full(nel, float(rng.integers(-2, 5)) / 4.0 + 0.3)
    if kind == "int01":          # an integer-typed black-and-white design (e.g. np.ones(nel, dtype=int) with holes)
        return (rng.random(nel) > 0.4).astype(np.int64)
    if kind == "int":            # integer-typed field with a few levels
        return rng.integers(-2, 4, nel).astype(np.int64)
    if kind == "delta":
        x = np.zeros(nel)
        x[rng.integers(0, nel)] = 1.0
        return x
    x = rng.random(nel)          # plateau: exact 0/1 blocks with some intermediate values
    u = rng.random(nel)
    x[u < 0.35] = 0.0
    x[u > 0.65] = 1.0
    return x


def _kernel(c, rng):
    hx, hy, hz = c["half"]
    shp = (2 * hx + 1, 2 * hy + 1, 2 * hz + 1)
    t = c["ktype"]
    if t == "nonneg":
        w = rng.random(shp) + 0.05
        w[rng.random(shp) < 0.2] = 0.0
        if w.sum() == 0:
            w[hx, hy, hz] = 1.0
        w /= w.sum()
    elif t == "mirror":
        w = rng.random(shp) + 0.05
        w = w + w[::-1]
        w = w + w[:, ::-1]
        w = w + w[:, :, ::-1]
        w /= w.sum()
    elif t == "signed":
        w = rng.standard_normal(shp)
    elif t == "ramp":
        w = 1.0 + np.arange(np.prod(shp), dtype=float).reshape(shp)
    else:  # delta_off: a pure shift
        w = np.zeros(shp)
        w[rng.integers(0, shp[0]), rng.integers(0, shp[1]), rng.integers(0, shp[2])] = 1.0
    return w


# ----------------------------------------------------------------------------------------------------------------
# per-axis extension maps: entry = ('i', m) domain index, or ('c', value)
def _ideal_axis(n, p, mmin, mmax):
    out = []
    for i in range(-p, n + p):
        if 0 <= i < n:
            out.append(("i", i))
            continue
        mode = mmin if i < 0 else mmax
        if mode == "symmetric":
            m = i % (2 * n)
            out.append(("i", m if m < n else 2 * n - 1 - m))
        elif mode == "edge":
            out.append(("i", 0 if i < 0 else n - 1))
        elif mode == "wrap":
            out.append(("i", i % n))
        else:
            out.append(("c", float(mode)))
    return out


def _seq_pad(lst, p, mode, side):
    """extend the current list by p entries on one side, the rule reading the *current* list (np.pad semantics)"""
    L = len(lst)
    new = []
    for k in range(p):          # k-th entry away from the boundary
        if mode == "symmetric":
            m = k % (2 * L)
            m = m if m < L else 2 * L - 1 - m
            new.append(lst[m] if side == "min" else lst[L - 1 - m])
        elif mode == "edge":
            new.append(lst[0] if side == "min" else lst[-1])
        elif mode == "wrap":
            new.append(lst[(L - 1 - k) % L] if side == "min" else lst[k % L])
        else:
            new.append(("c", float(mode)))
    return (new[::-1] + lst) if side == "min" else (lst + new)


def _axis_readings(n, p, mmin, mmax):
    """admissible extension maps of one axis; more than one only in the ambiguous class (p > n, different modes)"""
    ideal = _ideal_axis(n, p, mmin, mmax)
    if p <= n or _same_mode(mmin, mmax):
        return [ideal], False
    base = [("i", i) for i in range(n)]
    r_minfirst = _seq_pad(_seq_pad(base, p, mmin, "min"), p, mmax, "max")
    r_maxfirst = _seq_pad(_seq_pad(base, p, mmax, "max"), p, mmin, "min")
    out = [ideal]
    for r in (r_minfirst, r_maxfirst):
        if r not in out:
            out.append(r)
    return out, len(out) > 1


def _leak_axis_map(n, p, cmax):
    """Model of the known finding C09-wide-kernel-placeholder-leak (NOT an admissible reading): the max side is padded
    first with placeholder index 0 and only that slab is overridden with the constant; the min-side 'symmetric' pad then
    reflects [domain | placeholders], so min-side positions further than n from the boundary read element number 0."""
    lst = _seq_pad([("i", i) for i in range(n)] + [("z", 0)] * p, p, "symmetric", "min")
    return lst[:p + n] + [("c", float(cmax))] * p


def _same_mode(a, b):
    if isinstance(a, str) or isinstance(b, str):
        return a == b
    return True   # two constants: neither side reads anything


def _extend(X, maps, prio):
    """x_ext on the padded box; maps = per-axis lists; prio = axis order deciding which constant wins in corners"""
    sh = [len(m) for m in maps]
    E = np.empty(sh, dtype=float)
    for i, a in enumerate(maps[0]):
        for j, b in enumerate(maps[1]):
            for k, c in enumerate(maps[2]):
                ent = (a, b, c)
                val = None
                for ax in prio:
                    if ent[ax][0] == "c":
                        val = ent[ax][1]
                        break
                if val is None:
                    if a[0] == "z" or b[0] == "z" or c[0] == "z":
                        val = X[0, 0, 0]      # placeholder-leak model only: padded index 0 = element number 0
                    else:
                        val = X[a[1], b[1], c[1]]
                E[i, j, k] = val
    return E


def _conv_valid(E, W, n):
    """y[i] = sum_d W[h+d] * E_ext[i-d]; E holds x_ext on [-h, n+h) per axis"""
    h = [(s - 1) // 2 for s in W.shape]
    Y = np.zeros(n, dtype=float)
    for a in range(W.shape[0]):
        for b in range(W.shape[1]):
            for c in range(W.shape[2]):
                w = W[a, b, c]
                if w == 0.0:
                    continue
                d = (a - h[0], b - h[1], c - h[2])
                sl = tuple(slice(h[t] - d[t], h[t] - d[t] + n[t]) for t in range(3))
                Y += w * E[sl]
    return Y


def _const_conflict(maps):
    """True if some padded position sees two different constants from different axes"""
    vals = []
    for m in maps:
        vals.append({e[1] for e in m if e[0] == "c"})
    for a, b in itertools.combinations(range(3), 2):
        for u in vals[a]:
            for v in vals[b]:
                if u != v:
                    return True
    return False


# ----------------------------------------------------------------------------------------------------------------
def _override_index(ov, n, pads):
    """-> (index object for pyMOTO, list of padded-box positions (i,j,k) that are set)"""
    a, b = ov["a"], ov["b"]
    if ov["where"] == "pad":
        full = [n[t] + 2 * pads[t] for t in range(3)]
        rng_ = []
        for t in range(3):
            lo, hi = sorted((a[t] % full[t], b[t] % full[t]))
            rng_.append(np.arange(lo, hi + 1))
        idx = tuple(np.meshgrid(*rng_, indexing="ij"))
        pos = [(int(i), int(j), int(k)) for i in rng_[0] for j in rng_[1] for k in rng_[2]]
        return idx, pos
    if ov["kind"] == "box":
        sl, r = [], []
        for t in range(3):
            lo, hi = sorted((a[t] % n[t], b[t] % n[t]))
            sl.append(slice(lo, hi + 1))
            r.append(range(lo, hi + 1))
        pos = [(i + pads[0], j + pads[1], k + pads[2]) for i in r[0] for j in r[1] for k in r[2]]
        return tuple(sl), pos
    g = np.random.default_rng(1000 * a[0] + 100 * a[1] + 10 * a[2] + b[0])
    if ov["kind"] == "mask":
        mask = g.random(tuple(n)) < 0.3
        pos = [(i + pads[0], j + pads[1], k + pads[2]) for i in range(n[0]) for j in range(n[1]) for k in range(n[2])
               if mask[i, j, k]]
        return mask, pos
    m = 1 + b[1] % 4
    pts = [g.integers(0, n[t], m) for t in range(3)]
    pos = [(int(pts[0][q]) + pads[0], int(pts[1][q]) + pads[1], int(pts[2][q]) + pads[2]) for q in range(m)]
    return tuple(pts), pos


def _close(y, refs, tol):
    return any(np.max(np.abs(y - r), initial=0.0) <= tol for r in refs)


# ----------------------------------------------------------------------------------------------------------------
def check_case(case):
    import pymoto as pym
    V = []
    dom = case["dom"]
    nel = dom["nel"]
    dim = 2 if nel[2] == 0 else 3
    n = [nel[0], nel[1], max(nel[2], 1)]
    N = n[0] * n[1] * n[2]
    kind = case["kind"]
    labels = [f"dim{dim}", kind, "field_" + case["field"]]
    if min(n[:dim]) == 1:
        labels.append("one_wide")
    rng = np.random.default_rng(case["payload_seed"])
    x = _field(case["field"], N, rng)
    if np.ptp(x) > 0:
        labels.append("field_nonconst")

    def bad(bucket, detail, **extra):
        V.append(viol(f"C09:{bucket}", f"{detail} | case={ {k: v for k, v in case.items() if k != 'payload_seed'} }",
                      **extra))

    domain = make_domain(dom)
    if kind == "density":
        _check_density(pym, case, domain, n, x, rng, labels, bad)
    else:
        _check_conv(pym, case, domain, dim, n, x, rng, labels, bad)
    return labels, V


# ----------------------------------------------------------------------------------------------------------------
def _check_density(pym, case, domain, n, x, rng, labels, bad):
    N = x.size
    r = case["radius"]
    npad = case["nonpadding"]
    kw = {}
    if npad is not None:
        if npad == "all":
            sel = np.arange(N)
        elif npad == "none":
            sel = np.array([], dtype=int)
        else:
            sel = np.flatnonzero(rng.random(N) < 0.5)
        kw["nonpadding"] = sel
        labels.append("nonpadding_" + npad)
    if isinstance(r, int):
        labels.append("radius_int")
    try:
        m = pym.DensityFilter(pym.Signal("x", state=x.copy()), domain=domain, radius=r, **kw)
        m.response()
        y = np.asarray(m.sig_out[0].state)
    except Exception as e:
        bad(f"raises:DensityFilter:{type(e).__name__}", _exc(e))
        return
    if y.shape != x.shape:
        bad("density:shape", f"output shape {y.shape}")
        return
    # own reference: cone weights in element-index units, each row normalised by its own sum
    nx, ny, nz = n
    ii = np.empty(N)
    jj = np.empty(N)
    kk = np.empty(N)
    for k in range(nz):
        for j in range(ny):
            for i in range(nx):
                e = (k * ny + j) * nx + i
                ii[e], jj[e], kk[e] = i, j, k
    num = np.empty(N)
    s = np.empty(N)
    reach = False
    for e in range(N):
        d = np.sqrt((ii - ii[e]) ** 2 + (jj - jj[e]) ** 2 + (kk - kk[e]) ** 2)
        w = np.maximum(0.0, r - d)
        num[e] = float(np.sum(w * x))
        s[e] = float(np.sum(w))
        if np.count_nonzero(w) > 1:
            reach = True
    if reach and r > 1:
        labels.append("reaches_boundary")   # a cone wider than one element is always clipped at the domain boundary
    if npad is not None:
        s2 = s.copy()
        mask = np.ones(N, dtype=bool)
        mask[kw["nonpadding"]] = False
        s2[mask] = s.max()
        ref = num / s2
    else:
        ref = num / s
    tol = TOL * max(1.0, float(np.max(np.abs(x))))
    if not _close(y, [ref], tol):
        e = int(np.argmax(np.abs(y - ref)))
        bad("density:nonpadding" if npad is not None else "density:value",
            f"element {e}: y={y[e]!r} cone average={ref[e]!r} (max err {np.max(np.abs(y - ref)):.3e})")
    if npad is None:
        if y.min() < x.min() - tol or y.max() > x.max() + tol:
            bad("density:invariant:range", f"y in [{y.min()},{y.max()}] outside [{x.min()},{x.max()}]")
        cval = 0.7
        try:
            m2 = pym.DensityFilter(pym.Signal("x", state=np.full(N, cval)), domain=domain, radius=r)
            m2.response()
            yc = np.asarray(m2.sig_out[0].state)
        except Exception as e:
            bad(f"raises:DensityFilter:{type(e).__name__}", _exc(e))
            return
        if np.max(np.abs(yc - cval)) > TOL:
            bad("density:invariant:constant", f"constant {cval} mapped to [{yc.min()},{yc.max()}]")


# ----------------------------------------------------------------------------------------------------------------
def _build_conv(pym, case, domain, dim, x, W):
    kw = {}
    names = ["xmin_bc", "xmax_bc", "ymin_bc", "ymax_bc", "zmin_bc", "zmax_bc"]
    for s, b in enumerate(case["bc"]):
        kw[names[s]] = b
    if case["kind"] == "conv_radius":
        r = case["radius"]
        if case.get("radius_int"):
            r = int(r)
        kw["radius"] = r
        kw["relative_units"] = case["relative"]
    else:
        Wp = W if case["arr_ndim"] == 3 else W[:, :, 0]
        kw["weights"] = Wp.copy()
    return pym.FilterConv(pym.Signal("x", state=x.copy()), domain=domain, **kw)


def _check_conv(pym, case, domain, dim, n, x, rng, labels, bad):
    bc = list(case["bc"]) + ["symmetric"] * (6 - len(case["bc"]))
    W = _kernel(case, rng) if case["kind"] == "conv_kernel" else None
    has_const = any(not isinstance(b, str) for b in case["bc"])
    labels.append("bc_const" if has_const else "bc_noconst")
    if all(b == "symmetric" for b in case["bc"]):
        labels.append("bc_all_symmetric")
    if "wrap" in case["bc"]:
        labels.append("bc_wrap")

    # ---- plain module (no overrides) ---------------------------------------------------------------------------
    try:
        m = _build_conv(pym, case, domain, dim, x, W)
        m.response()
        y = np.asarray(m.sig_out[0].state).copy()
        Wc = np.asarray(m.weights, dtype=float)
        pads = [int(v) for v in m.pad_sizes]
    except Exception as e:
        bad(f"raises:FilterConv:{type(e).__name__}", _exc(e))
        return
    if y.shape != x.shape:
        bad("conv:shape", f"output shape {y.shape}")
        return

    if case["kind"] == "conv_radius":
        W = _check_radius_kernel(case, domain, dim, n, Wc, labels, bad)
        if W is None:
            return
        labels.append("relative" if case["relative"] else "absolute")
    else:
        labels.append("k_" + case["ktype"])
        if Wc.shape != W.shape or not np.array_equal(Wc, W):
            bad("kernel:stored", f"stored weights differ from the given kernel: shape {Wc.shape} vs {W.shape}")
            return
    h = [(s - 1) // 2 for s in W.shape]
    if pads != h:
        bad("kernel:pad_sizes", f"pad_sizes {pads} for kernel shape {W.shape}")
    if any(h[a] > 0 and np.any(np.delete(W, h[a], axis=a) != 0) for a in range(3)):
        labels.append("reaches_boundary")
    if any(h[a] > n[a] for a in range(3)):
        labels.append("wide_kernel")

    # ---- admissible readings of the extension --------------------------------------------------------------------
    per_axis, amb_axis = [], False
    for a in range(3):
        rs, amb = _axis_readings(n[a], h[a], bc[2 * a], bc[2 * a + 1])
        per_axis.append(rs)
        amb_axis = amb_axis or amb
    X = _to3(x, n)
    readings = []
    amb_corner = False
    for maps in itertools.product(*per_axis):
        if _const_conflict(maps):
            amb_corner = True
            prios = list(itertools.permutations(range(3)))
        else:
            prios = [(0, 1, 2)]
        for pr in prios:
            readings.append((maps, pr))
    if amb_axis:
        labels.append("ambiguous_axis")
    if amb_corner:
        labels.append("ambiguous_corner")
    if amb_axis or amb_corner:
        labels.append("ambiguous")
    scale = float(np.sum(np.abs(W))) * max(1.0, float(np.max(np.abs(x))),
                                          max([abs(float(b)) for b in bc if not isinstance(b, str)] + [0.0]))
    tol = TOL * max(scale, 1e-300)
    exts = [_extend(X, maps, pr) for maps, pr in readings]
    refs = [_to_flat(_conv_valid(E, W, n), n) for E in exts]
    ok_plain = _close(y, refs, tol)
    if not ok_plain:
        e = int(np.argmax(np.abs(y - refs[0])))
        detail = (f"element {e}: y={y[e]!r} reference={refs[0][e]!r} (max err {np.max(np.abs(y - refs[0])):.3e}, "
                  f"{len(refs)} admissible reading(s), tol {tol:.1e}) bc={bc} kernel shape {W.shape}")
        # known finding: is the output exactly the placeholder-leak model? (all eligible axes leak, as the code does;
        # the other axes and the constant priority run over the admissible readings)
        leak_axes = [a for a in range(3) if h[a] > n[a] and bc[2 * a] == "symmetric"
                     and not isinstance(bc[2 * a + 1], str)]
        is_leak = False
        if leak_axes:
            per2 = [([_leak_axis_map(n[a], h[a], bc[2 * a + 1])] if a in leak_axes else per_axis[a]) for a in range(3)]
            for maps in itertools.product(*per2):
                for pr in itertools.permutations(range(3)):
                    if _close(y, [_to_flat(_conv_valid(_extend(X, maps, pr), W, n), n)], tol):
                        is_leak = True
                        break
                if is_leak:
                    break
        if is_leak:
            labels.append("placeholder_leak")
            bad("conv:value:wide_mixed", "output equals the placeholder-leak model (x[element 0] read through the "
                f"max-side constant pad) on axes {leak_axes}; " + detail, sig={"shape": "placeholder_leak", "axis": leak_axes})
        else:
            sub = "conv:value:const_corner" if (amb_corner and not amb_axis) else (
                "conv:value:" + ("radius" if case["kind"] == "conv_radius" else "kernel"))
            bad(sub, detail)

    # ---- invariants (independent of the reference) -----------------------------------------------------------------
    nonneg_unit = bool(np.all(W >= 0) and abs(W.sum() - 1.0) <= 1e-12)
    if nonneg_unit and not has_const:
        labels.append("invariants")
        t = 1e-12 * max(1.0, float(np.max(np.abs(x))))
        if y.min() < x.min() - t or y.max() > x.max() + t:
            bad("conv:invariant:range", f"y in [{y.min()!r},{y.max()!r}] outside [{x.min()!r},{x.max()!r}] bc={bc}")
        cval = -1.3
        try:
            mc = _build_conv(pym, case, domain, dim, np.full(x.size, cval), W)
            mc.response()
            yc = np.asarray(mc.sig_out[0].state)
        except Exception as e:
            bad(f"raises:FilterConv:{type(e).__name__}", _exc(e))
            return
        if np.max(np.abs(yc - cval)) > 2e-12:
            bad("conv:invariant:constant", f"constant {cval} mapped to [{yc.min()!r},{yc.max()!r}] bc={bc}")
        mirror = all(np.allclose(W, np.flip(W, axis=a), rtol=0, atol=1e-15) for a in range(3))
        if mirror and all(b == "symmetric" for b in case["bc"]):
            labels.append("volume_checked")
            if abs(y.sum() - x.sum()) > 1e-12 * max(1.0, float(np.sum(np.abs(x)))):
                bad("conv:invariant:volume", f"sum y = {y.sum()!r}, sum x = {x.sum()!r}")

    # ---- overrides -------------------------------------------------------------------------------------------------
    ovs = case.get("overrides") or []
    if not ovs or not ok_plain:
        return
    labels.append("overrides")
    try:
        m2 = _build_conv(pym, case, domain, dim, x, W)
        applied = []
        for ov in ovs:
            idx, pos = _override_index(ov, n, h)
            if ov["where"] == "pad":
                m2.override_padded_values(idx, ov["value"])
            else:
                m2.override_values(idx, ov["value"])
            applied.append((ov, pos))
        m2.response()
        y2 = np.asarray(m2.sig_out[0].state).copy()
    except Exception as e:
        bad(f"raises:FilterConv:override:{type(e).__name__}", _exc(e))
        return
    # reading A: extension of the original field, then overrides in call order
    refsA = []
    for E in exts:
        E2 = E.copy()
        for ov, pos in applied:
            for (i, j, k) in pos:
                E2[i, j, k] = ov["value"]
        refsA.append(_to_flat(_conv_valid(E2, W, n), n))
    # reading B: domain overrides change the field that is extended (padded-region overrides as before)
    X2 = X.copy()
    for ov, pos in applied:
        if ov["where"] == "dom":
            for (i, j, k) in pos:
                X2[i - h[0], j - h[1], k - h[2]] = ov["value"]
    refsB = []
    for maps, pr in readings:
        E2 = _extend(X2, maps, pr)
        for ov, pos in applied:
            for (i, j, k) in pos:
                E2[i, j, k] = ov["value"]
        refsB.append(_to_flat(_conv_valid(E2, W, n), n))
    if not all(np.array_equal(a, b) for a, b in zip(refsA, refsB)):
        labels.append("override_ambiguous")
    tol2 = tol * max(1.0, max(abs(o["value"]) for o in ovs))
    if not _close(y2, refsA + refsB, tol2):
        e = int(np.argmax(np.abs(y2 - refsA[0])))
        bad("conv:override", f"element {e}: y={y2[e]!r} reference={refsA[0][e]!r} overrides={ovs} bc={bc}")


def _check_radius_kernel(case, domain, dim, n, Wc, labels, bad):
    """the kernel built from a radius: odd shape, non-negative, sums to one, mirror symmetric, normalised cone on its
    support, support complete up to the cap n. Returns the kernel to use in the reference (the stored one)."""
    r = float(case["radius"])
    unit = [1.0, 1.0, 1.0] if case["relative"] else [float(u) for u in case["dom"]["unit"]]
    if Wc.ndim != 3 or any(s % 2 == 0 for s in Wc.shape):
        bad("kernel:shape", f"radius kernel has shape {Wc.shape}")
        return None
    h = [(s - 1) // 2 for s in Wc.shape]
    if dim == 2 and h[2] != 0:
        bad("kernel:shape", f"2D radius kernel has z half-width {h[2]}")
        return None
    okk = True
    if Wc.min() < 0:
        bad("kernel:nonneg", f"min weight {Wc.min()!r}")
        okk = False
    if abs(Wc.sum() - 1.0) > 1e-13:
        bad("kernel:sum", f"weights sum to {Wc.sum()!r}")
        okk = False
    for a in range(3):
        if np.max(np.abs(Wc - np.flip(Wc, axis=a))) > 1e-15:
            bad("kernel:mirror", f"kernel not mirror-symmetric about axis {a}")
            okk = False
    cone = np.zeros(Wc.shape)
    for a in range(Wc.shape[0]):
        for b in range(Wc.shape[1]):
            for c in range(Wc.shape[2]):
                d = np.sqrt(((a - h[0]) * unit[0]) ** 2 + ((b - h[1]) * unit[1]) ** 2 + ((c - h[2]) * unit[2]) ** 2)
                cone[a, b, c] = max(0.0, r - d)
    cone /= cone.sum()
    if np.max(np.abs(Wc - cone)) > 1e-13:
        bad("kernel:cone", f"kernel differs from the normalised cone (radius {r}, units {unit}) by "
                           f"{np.max(np.abs(Wc - cone)):.3e}; shape {Wc.shape}")
        okk = False
    # completeness: every offset with |d_a| <= n_a and a clearly positive cone weight lies inside the kernel box
    nn = [n[0], n[1], n[2] if dim == 3 else 0]
    for a in range(3):
        dmax = 0
        for d in range(1, nn[a] + 1):
            if r - d * unit[a] > 1e-8 * r:
                dmax = d
        if h[a] < dmax:
            bad("kernel:support", f"axis {a}: half-width {h[a]} but offset {dmax} has weight {r - dmax * unit[a]:.3g} "
                                  f"(radius {r}, unit {unit[a]}, n={nn[a]})")
            okk = False
        if h[a] > nn[a]:
            labels.append("radius_kernel_wider_than_domain")
    if any(h[a] == nn[a] and nn[a] > 0 for a in range(3)):
        labels.append("radius_capped")
    return Wc if okk else None
