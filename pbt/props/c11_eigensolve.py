"""C11 — EigenSolve returns genuine, normalised, ordered eigenpairs (forward results only).

Dense path: matrices are built constructively from a prescribed, gapped spectrum (A = B X diag(lam) X^-1 with a
well-conditioned eigenvector matrix X), so that the comparison with an independent numpy.linalg computation is well
posed.  Sparse path: FE pencils assembled with pymoto.AssembleStiffness / AssemblePoisson / AssembleMass with boundary
conditions; the reference spectrum is the dense one (numpy.linalg on the free-dof sub-pencil plus the analytically known
spurious boundary-condition modes).
"""
import numpy as np
from hypothesis import strategies as st
from pbt.harness import viol
from pbt.common import SEED, make_matrix, rand_orth, rand_unit, make_domain

PROPERTY_ID = "C11"
RULE = ("case = dense pencil (class in {real symmetric, complex Hermitian, complex symmetric, general real with real "
        "spectrum, general real with conjugate pairs, general complex}, n=1..12 (thorough ..14), standard or generalised "
        "with positive definite B, hermitian hint None/true value, sorting function in {default, descending, "
        "|lam-target|, |lam|}) with a prescribed gapped spectrum and well-conditioned eigenvectors drawn from "
        "default_rng(payload_seed); or sparse FE pencil (elasticity/Poisson stiffness, optional mass matrix, 2D/3D "
        "domain, random densities, boundary conditions on a side + extra dofs or free-free, bc diagonal values, csc/csr, "
        "real or complex modulus, nmodes None/1..6, sigma None/0/between eigenvalues). Non-trivial = n >= 3 and A not "
        "diagonal. Distinct = sha1 of the canonical case JSON.")
ASSUMPTIONS = [
    "eigenvalues simple and separated by construction (dense: gaps >= spread/(2(n-1)); sparse: random densities, free-free only for "
    "the Poisson pencil whose zero eigenvalue is simple); the "
    "set comparison of the sparse path is skipped (label sparse_set_inconclusive) when the reference spectrum has no "
    "clear gap after the nmodes-th closest eigenvalue or a (multiple) spurious bc mode lies in/next to the window",
    "eigenvectors whose bilinear form q^T B q (nearly) vanishes are excluded by construction (|q^T B q| >= 0.05 q^H B q):"
    " the documented normalisation does not exist for them (e.g. complex eigenvectors of real normal matrices)",
    "hermitian= hint is only given with its true value; sorting functions depend on the eigenvalues only",
    "sparse path: mode='buckling'/'cayley' only for real symmetric pencils with a non-zero shift (scipy rejects them otherwise); mass matrices with zero bc diagonal (the module default, positive semi-definite) "
    "are included because the repository's own tests use them; sigma is never closer to an eigenvalue than 0.3 of the "
    "local eigenvalue spacing",
    "trusted: numpy.linalg (eigvals, solve, cholesky), scipy.optimize.linear_sum_assignment, pyMOTO assembly modules "
    "(checked by C08)",
    "ARPACK's start vector is random; tolerances (1e-7 relative on eigenvalues, 1e-8 on residuals) absorb it",
]

DENSE_KINDS = ["real_sym", "herm", "complex_sym", "real_gen_realspec", "real_gen_pairs", "complex_gen",
               "real_sym_struct"]
SORTERS = ["default", "desc", "abs_target", "abs"]

TOL_RES = 1e-9     # residual, relative to (|A| + |lam||B|) |q|
TOL_NORM = 1e-10   # | q^T B q - 1 |
TOL_EIG = 1e-8     # dense eigenvalue multiset vs numpy.linalg, relative to max |lam|
TOL_EIG_SPARSE = 1e-7


def budget(tier):
    return {"examples": 10000 if tier == "quick" else 150000, "shards": 16, "shrink": 200 if tier == "quick" else 1000}


# ----------------------------------------------------------------------------------------------------------------
def strategy(tier):
    big = tier != "quick"
    nmax = 14 if big else 12

    @st.composite
    def dense(draw):
        kind = draw(st.sampled_from(DENSE_KINDS))
        n = draw(st.integers(1, nmax))
        if kind == "real_gen_pairs":
            n = max(n, 2)
        gen = draw(st.booleans())
        c = {"path": "dense", "kind": kind, "n": n, "gen": gen,
             "bcplx": bool(gen and kind in ("herm", "complex_gen", "complex_sym") and draw(st.booleans())),
             "hint": draw(st.booleans()), "sorter": draw(st.sampled_from(SORTERS)),
             "target": [draw(st.sampled_from([0.0, 1.0, -0.5, 2.5])), draw(st.sampled_from([0.0, 0.25, -1.0]))],
             "scale": draw(st.sampled_from([1.0, 0.01, 100.0])), "payload_seed": draw(SEED),
             "forder": draw(st.booleans()),
             # sparse-only options given for a dense problem (the examples construct EigenSolve(..., nmodes=3) before
             # they know the storage): documented as ignored, the complete spectrum is still returned
             "dense_nmodes": draw(st.sampled_from([None, None, 1, 2, 3, 6]))}
        return c

    @st.composite
    def sparse(draw):
        dim = draw(st.sampled_from([2, 2, 3]))
        if dim == 2:
            m = 6 if big else 5
            nel = [draw(st.integers(1, m)), draw(st.integers(1, m)), 0]
        else:
            m = 3 if big else 2
            nel = [draw(st.integers(1, m)), draw(st.integers(1, 2)), draw(st.integers(1, 2))]
        unit = [draw(st.sampled_from([1.0, 0.5, 2.0, 1.3])) for _ in range(3)]
        sig = draw(st.sampled_from(["none", "zero", "shift", "shift"]))
        bc = draw(st.sampled_from(["side", "side", "none"])) if sig == "shift" else "side"
        c = {"path": "sparse", "phys": draw(st.sampled_from(["elast", "elast", "poisson"])),
             "dom": {"nel": nel, "unit": unit}, "gen": draw(st.booleans()),
             "mbc": draw(st.sampled_from(["zero", "pos"])), "kbc": draw(st.sampled_from(["default", "far", "far", "far"])),
             "cplx": False, "fmt": draw(st.sampled_from(["csc", "csr"])),
             "nmodes": draw(st.sampled_from([None, 1, 2, 3, 4, 5, 6])), "sigma": sig,
             "sigma_idx": draw(st.integers(0, 11)), "sigma_below": draw(st.booleans()),
             "bc": bc, "bc_side": draw(st.integers(0, 5)), "bc_extra": draw(st.integers(0, 3)),
             "hint": draw(st.booleans()), "sorter": draw(st.sampled_from(["default", "desc", "abs_target"])),
             # ARPACK shift-invert variant (documented `mode` keyword; used for real symmetric pencils with a shift)
             "amode": draw(st.sampled_from(["normal", "normal", "buckling", "cayley"])),
             # overall scale of the (real) stiffness matrix: eigenvalues and shift of order 1e-9 ... 1e6
             "kscale": draw(st.sampled_from([1.0, 1.0, 1.0, 1e-9, 1e-12, 1e6])),
             "payload_seed": draw(SEED)}
        if c["phys"] == "elast":
            # free-free elastic pencils have a 3/6-fold eigenvalue (rigid-body modes) on which ARPACK can fail to
            # converge (seen: nmodes=3 of 6, and eigs on the complex pencil); the free-free Poisson pencil has a simple
            # zero eigenvalue and is kept
            c["bc"] = "side"
            # complex modulus (AssemblePoisson does not accept a complex property)
            c["cplx"] = draw(st.sampled_from([False, False, True]))
        # complex *Hermitian* sparse pencils: the real symmetric FE pencil under a unitary diagonal similarity
        # (K' = D^H K D, M' = D^H M D with small phases) -- same real spectrum, complex Hermitian storage
        c["phase"] = (not c["cplx"]) and draw(st.sampled_from([False, False, True]))
        if c["phase"]:
            # complex storage sends eigsh through ARPACK's general complex driver, which breaks down (error 3) on the
            # multiple spurious bc eigenvalue when it lies inside the spectrum: keep it far away (as for free-free
            # elastic pencils, see above)
            c["kbc"] = "far"
        return c

    @st.composite
    def sparse_diag(draw):
        # generic sparse pencils that are not FE matrices: a DIAGONAL sparse A (lumped / modal stiffness) with a
        # non-diagonal positive definite B (or no B), a shift inside the spectrum
        return {"path": "sparse_diag", "n": draw(st.integers(6, 14 if big else 10)), "gen": draw(st.booleans()),
                "fmt": draw(st.sampled_from(["csc", "csr", "dia"])), "nmodes": draw(st.integers(1, 4)),
                "sigma_idx": draw(st.integers(0, 12)), "sigma_zero": draw(st.sampled_from([False, False, True])),
                "sorter": draw(st.sampled_from(["default", "desc"])), "hint": draw(st.booleans()),
                "payload_seed": draw(SEED)}

    return st.one_of(dense(), dense(), sparse(), sparse(), sparse(), sparse_diag())


def nontrivial(labels):
    return "n>=3" in labels and "nondiagonal" in labels


# ----------------------------------------------------------------------------------------------------------------
# sorting functions handed to the module, and my own statement of the order they define
def _sorter(name, target):
    if name == "default":
        return None
    if name == "desc":
        return lambda W, Q: np.argsort(-W)
    if name == "abs_target":
        return lambda W, Q: np.argsort(np.abs(W - target))
    if name == "abs":
        return lambda W, Q: np.argsort(np.abs(W))
    raise ValueError(name)


def _ordered(name, target, W):
    """True iff W is in the order the named sorting function defines (own formulation, with a rounding margin)."""
    W = np.asarray(W)
    s = max(1.0, float(np.max(np.abs(W), initial=0.0))) * 1e-12
    if name in ("abs_target", "abs"):
        k = np.abs(W - target) if name == "abs_target" else np.abs(W)
        return bool(np.all(k[:-1] <= k[1:] + s))
    sgn = -1.0 if name == "desc" else 1.0
    re, im = sgn * np.real(W), sgn * np.imag(W)
    for i in range(len(W) - 1):   # lexicographic (real, imag) -- numpy's order for complex numbers
        if re[i] > re[i + 1] + s:
            return False
        if re[i] == re[i + 1] and im[i] > im[i + 1] + s:
            return False
    return True


def _match(a, b):
    """max_i |a_i - b_pi(i)| under the optimal assignment (both 1-D, same length)."""
    from scipy.optimize import linear_sum_assignment
    a, b = np.asarray(a, dtype=complex), np.asarray(b, dtype=complex)
    cost = np.abs(a[:, None] - b[None, :])
    cost = np.where(np.isfinite(cost), cost, 1e300)
    r, c = linear_sum_assignment(cost)
    return float(cost[r, c].max(initial=0.0))


# ----------------------------------------------------------------------------------------------------------------
# dense generator
def _gapped(rng, n):
    g = 1.0 + rng.random(max(n - 1, 0))
    p = np.concatenate(([0.0], np.cumsum(g)))
    p = p / max(p[-1], 1.0)            # in [0, 1], min gap >= 1/(2(n-1))
    return p


def _bilinear_ok(X, B):
    BX = X if B is None else B @ X
    num = np.abs(np.sum(X * BX, axis=0))
    den = np.abs(np.sum(X.conj() * BX, axis=0))
    return bool(np.all(num >= 0.05 * den))


def build_struct(case):
    """Real symmetric matrices with exact structure: block diagonal of [[a,-b],[-b,a]] blocks (+ a 1x1 block for odd n),
    optionally with a scalar mass matrix m*I. Their eigenvectors (1,1)/sqrt2 and (1,-1)/sqrt2 are exact in floating
    point: antisymmetric modes have an exactly zero mean entry, symmetric structures that random matrices never give."""
    rng = np.random.default_rng(case["payload_seed"])
    n = case["n"]
    A = np.zeros((n, n))
    vals = []
    used = set()
    k = 0
    while k + 1 < n:
        for _ in range(100):
            a, b = int(rng.integers(-6, 7)), int(rng.integers(1, 5))
            if (a + b) not in used and (a - b) not in used:
                break
        used.update([a + b, a - b])
        A[k:k + 2, k:k + 2] = [[a, -b], [-b, a]]
        vals += [a + b, a - b]
        k += 2
    if k < n:
        for _ in range(100):
            a = int(rng.integers(-12, 13))
            if a not in used:
                break
        A[k, k] = a
        vals.append(a)
    perm = rng.permutation(n)            # hide the block structure, keep it exact
    A = A[np.ix_(perm, perm)] * case["scale"]
    L = np.array(vals, dtype=float) * case["scale"]
    B = None
    if case["gen"]:
        m = float(rng.choice([0.5, 2.0, 4.0]))
        B = m * np.eye(n)
        L = L / m
    return A, B, L


def build_dense(case):
    if case["kind"] == "real_sym_struct":
        return build_struct(case)
    rng = np.random.default_rng(case["payload_seed"])
    kind, n, gen = case["kind"], case["n"], case["gen"]
    cplxA = kind in ("herm", "complex_sym", "complex_gen")
    B = None
    if gen:
        B = make_matrix("herm_pd" if (case["bcplx"] and cplxA) else "spd", n, rng, cond=float(rng.choice([2.0, 20.0])))
        if kind == "complex_sym":
            B = make_matrix("spd", n, rng, cond=20.0) if not case["bcplx"] else B
    pts = _gapped(rng, n)
    spread = float(rng.choice([1.0, 3.0]))
    off = float(rng.choice([-0.5, 0.3, 1.0, -1.7])) * spread
    lam = off + spread * pts
    rng.shuffle(lam)
    for _ in range(200):
        if kind == "real_sym":
            C = np.eye(n) if B is None else np.linalg.cholesky(B)
            Y = rand_orth(rng, n, False)
            X = np.linalg.solve(C.T, Y) if B is not None else Y
            A = C @ Y @ np.diag(lam) @ Y.T @ C.T
            A = 0.5 * (A + A.T)
            L = lam.astype(float)
        elif kind == "herm":
            C = np.eye(n) if B is None else np.linalg.cholesky(B)
            Y = rand_orth(rng, n, True)
            X = np.linalg.solve(C.conj().T, Y) if B is not None else Y
            A = C @ Y @ np.diag(lam) @ Y.conj().T @ C.conj().T
            A = 0.5 * (A + A.conj().T)
            A[np.diag_indices(n)] = A.diagonal().real
            L = lam.astype(float)
        elif kind == "complex_sym":
            # complex orthogonal V = exp(K), K complex skew-symmetric and small: V^T V = I
            K = rand_unit(rng, (n, n), True) * (0.3 / max(n, 1))
            K = K - K.T
            import scipy.linalg as sl
            V = sl.expm(K)
            L = lam + 1j * spread * (rng.random(n) - 0.5)
            if B is None or np.iscomplexobj(B):
                # standard problem (or Hermitian complex B: then A = B X L X^-1 is only "general")
                if B is None:
                    A = V @ np.diag(L) @ V.T
                    A = 0.5 * (A + A.T)
                    X = V
                else:
                    X = V
                    A = B @ X @ np.diag(L) @ np.linalg.inv(X)
            else:
                C = np.linalg.cholesky(B)
                A = C @ V @ np.diag(L) @ V.T @ C.T
                A = 0.5 * (A + A.T)
                X = np.linalg.solve(C.T, V)
        elif kind == "real_gen_realspec":
            X = make_matrix("general", n, rng, False, cond=float(rng.choice([2.0, 10.0])))
            L = lam.astype(float)
            A = (X @ np.diag(L) @ np.linalg.inv(X))
            A = A if B is None else B @ A
        elif kind == "real_gen_pairs":
            Xr = make_matrix("general", n, rng, False, cond=float(rng.choice([2.0, 10.0])))
            npair = n // 2 if rng.random() < 0.5 else int(rng.integers(1, n // 2 + 1))
            D = np.zeros((n, n))
            L = np.zeros(n, dtype=complex)
            X = Xr.astype(complex)
            for j in range(npair):
                a, b = lam[2 * j], spread * (0.3 + rng.random())
                D[2 * j:2 * j + 2, 2 * j:2 * j + 2] = [[a, -b], [b, a]]
                L[2 * j], L[2 * j + 1] = a + 1j * b, a - 1j * b
                X[:, 2 * j] = Xr[:, 2 * j] - 1j * Xr[:, 2 * j + 1]
                X[:, 2 * j + 1] = Xr[:, 2 * j] + 1j * Xr[:, 2 * j + 1]
            for j in range(2 * npair, n):
                D[j, j] = lam[j]
                L[j] = lam[j]
            A = Xr @ D @ np.linalg.inv(Xr)
            A = A if B is None else B @ A
        elif kind == "complex_gen":
            X = make_matrix("general", n, rng, True, cond=float(rng.choice([2.0, 10.0])))
            L = lam + 1j * spread * (rng.random(n) - 0.5) * 2
            A = X @ np.diag(L) @ np.linalg.inv(X)
            A = A if B is None else B @ A
        else:
            raise ValueError(kind)
        if _bilinear_ok(X, B):
            break
    else:
        raise RuntimeError("generator could not avoid quasi-null eigenvectors")
    s = case["scale"]
    return A * s, B, np.asarray(L) * s


# ----------------------------------------------------------------------------------------------------------------
def check_case(case):
    if case["path"] == "dense":
        return _check_dense(case)
    if case["path"] == "sparse_diag":
        return _check_sparse_diag(case)
    return _check_sparse(case)


def _check_sparse_diag(case):
    import pymoto as pym
    import scipy.sparse as sps
    import scipy.linalg as sla
    rng = np.random.default_rng(case["payload_seed"])
    n, gen, k = case["n"], case["gen"], case["nmodes"]
    labels = ["sparse", "diagonal_A", "generalised" if gen else "standard", "real", f"nmodes_{k}", "n>=3",
              "nondiagonal" if gen else "diagonal_pencil"]
    d = 1.0 + np.cumsum(0.5 + rng.random(n))                    # distinct positive diagonal
    rng.shuffle(d)
    Ad = np.diag(d)
    Bd = None
    if gen:
        off = 0.2 + 0.3 * rng.random(n - 1)
        Bd = np.diag(1.5 + rng.random(n)) + np.diag(off, 1) + np.diag(off, -1)      # strictly diagonally dominant: SPD
    ref = np.sort(sla.eigh(Ad, Bd, eigvals_only=True))
    gaps = np.flatnonzero(np.diff(ref) > 1e-3 * ref[-1])
    if case["sigma_zero"] or len(gaps) == 0:
        sigma = 0.0
    else:
        i = int(gaps[case["sigma_idx"] % len(gaps)])
        sigma = float(ref[i] + 0.3 * (ref[i + 1] - ref[i]))
    labels.append("sigma_zero" if sigma == 0.0 else "sigma_shift")
    V = []
    tag = "sparse:hermitian"

    def bad(sub, detail):
        V.append(viol(f"C11:{sub}", f"{detail} | diagonal A, n={n} gen={gen} fmt={case['fmt']} sigma={sigma} nmodes={k} "
                                    f"sorter={case['sorter']}"))
    mk = {"csc": sps.csc_matrix, "csr": sps.csr_matrix, "dia": sps.dia_matrix}[case["fmt"]]
    sigs = [pym.Signal("A", mk(Ad))] + ([pym.Signal("B", sps.csc_matrix(Bd))] if gen else [])
    target = sigma + 0.1 * ref[-1]
    fn = _sorter(case["sorter"], target)
    kwargs = {"nmodes": k, "sigma": sigma}
    if fn is not None:
        kwargs["sorting_func"] = fn
    if case["hint"]:
        kwargs["hermitian"] = True
    try:
        mod = pym.EigenSolve(sigs, **kwargs)
        mod.response()
        W, Q = [np.asarray(s.state) for s in mod.sig_out]
    except Exception as e:
        bad(f"raises:{tag}:{type(e).__name__}", repr(e)[:500])
        return labels, V
    if W.shape != (k,) or Q.shape != (n, k):
        bad(f"count:{tag}", f"shapes W{W.shape} Q{Q.shape}, expected ({k},) ({n},{k})")
        return labels, V
    if not (np.all(np.isfinite(W)) and np.all(np.isfinite(Q))):
        bad(f"finite:{tag}", "non-finite eigenvalues or eigenvectors")
        return labels, V
    _common_checks(bad, tag, Ad, Bd, W, Q, case["sorter"], target, fn, True)
    dist = np.abs(ref - sigma)
    order = np.argsort(dist)
    want = ref[order[:k]]
    dk, dnext = dist[order[k - 1]], dist[order[k]]
    if (dnext - dk) > 1e-3 * max(dk, 1e-3 * ref[-1]):
        dmax = _match(W, want)
        if dmax > TOL_EIG_SPARSE * ref[-1]:
            bad(f"closest_to_sigma:{tag}", f"returned {np.array2string(np.sort_complex(W), precision=6)} but the {k} "
                                           f"eigenvalues closest to sigma={sigma:.6g} are "
                                           f"{np.array2string(np.sort(want), precision=6)}")
    return labels, V


def _common_checks(bad, tag, A, B, W, Q, sorter_name, target, fn, real_sym, tol_res=None):
    """Residual, bilinear normalisation, ordering, sign convention. A, B dense arrays (B may be None)."""
    k = W.size
    nA = np.linalg.norm(A)
    nB = 1.0 if B is None else np.linalg.norm(B)
    worst_r, worst_n = 0.0, 0.0
    for i in range(k):
        q = Q[:, i]
        Bq = q if B is None else B @ q
        r = np.linalg.norm(A @ q - W[i] * Bq)
        sc = (nA + abs(W[i]) * nB) * np.linalg.norm(q)
        rr = r / sc if sc > 0 else (0.0 if r == 0 else np.inf)
        if not np.isfinite(rr):
            rr = np.inf
        worst_r = max(worst_r, rr)
        nv = abs(q @ Bq - 1.0)        # bilinear (NOT conjugated) as documented
        if not np.isfinite(nv):
            nv = np.inf
        worst_n = max(worst_n, nv)
    # residual depends on the eigen-solver that was dispatched (tag); normalisation / order / sign are produced by the
    # common post-processing loop of EigenSolve._response: no tag, one bucket per sub-claim
    if worst_r > (TOL_RES if tol_res is None else tol_res):
        bad(f"residual:{tag}", f"max_i |A q_i - lam_i B q_i| / ((|A|+|lam_i||B|)|q_i|) = {worst_r:.3e}")
    if worst_n > TOL_NORM:
        bad("normalisation", f"max_i |q_i^T B q_i - 1| = {worst_n:.3e} (bilinear form, no conjugation)")
    f = fn if fn is not None else (lambda w, q: np.argsort(w))
    if not _ordered(sorter_name, target, W):
        bad("order", f"eigenvalues not in the order of sorter '{sorter_name}': {np.array2string(W, precision=5)}")
    else:
        p = np.asarray(f(W.copy(), Q.copy()))
        key = {"abs_target": lambda w: np.abs(w - target), "abs": np.abs}.get(sorter_name, lambda w: w)
        kk = key(W)
        if p.shape != (k,) or np.max(np.abs(kk[p] - kk), initial=0.0) > 1e-12 * max(1.0, np.max(np.abs(kk), initial=0.0)):
            bad("order", f"sorting_fn(W_out, Q_out) = {p.tolist()} is not the identity")
    if real_sym:
        if np.iscomplexobj(Q):
            if np.max(np.abs(Q.imag), initial=0.0) > 0:
                bad("sign", "real symmetric problem returned complex eigenvectors")
        else:
            m = Q.mean(axis=0)
            lim = -1e-12 * np.max(np.abs(Q), axis=0, initial=0.0)
            if np.any(m < lim):
                i = int(np.argmin(m - lim))
                bad("sign", f"eigenvector {i} has negative mean entry {m[i]:.3e}")


def _check_dense(case):
    import pymoto as pym
    A, B, L = build_dense(case)
    n, kind = case["n"], case["kind"]
    labels_extra = []
    if kind == "real_sym_struct":
        kind, labels_extra = "real_sym", ["exact_structure"]
    target = (case["target"][0] + 1j * case["target"][1]) * case["scale"]
    if kind in ("real_sym", "herm", "real_gen_realspec"):
        target = float(np.real(target))
    herm_pencil = kind in ("real_sym", "herm")
    labels = ["dense", kind, "generalised" if B is not None else "standard", f"sorter_{case['sorter']}"] + labels_extra
    if n >= 3:
        labels.append("n>=3")
    if n >= 2 and np.max(np.abs(A - np.diag(np.diag(A)))) > 1e-8 * np.max(np.abs(A)):
        labels.append("nondiagonal")
    if B is not None and np.iscomplexobj(B):
        labels.append("complexB")
    kwargs = {}
    if case["hint"]:
        kwargs["hermitian"] = herm_pencil
        labels.append("hint")
    fn = _sorter(case["sorter"], target)
    if fn is not None:
        kwargs["sorting_func"] = fn
    if case.get("dense_nmodes") is not None:
        kwargs["nmodes"] = case["dense_nmodes"]
        labels.append("nmodes_given_for_dense")
    V = []
    tag = "dense:" + ("hermitian" if herm_pencil else "general")

    def bad(sub, detail):
        V.append(viol(f"C11:{sub}", f"{detail} | kind={kind} n={n} gen={B is not None} sorter={case['sorter']} "
                                    f"hint={case['hint']}"))

    A0, B0 = A.copy(), None if B is None else B.copy()
    if case.get("forder"):       # column-major input arrays (e.g. transposed views); A0/B0 stay pristine references
        A = np.asfortranarray(A)
        B = None if B is None else np.asfortranarray(B)
        labels.append("fortran_order")
    sigs = [pym.Signal("A", A)] + ([] if B is None else [pym.Signal("B", B)])
    try:
        mod = pym.EigenSolve(sigs, **kwargs)
        mod.response()
        W, Q = [s.state for s in mod.sig_out]
        W, Q = np.asarray(W), np.asarray(Q)
    except Exception as e:
        bad(f"raises:{tag}:{type(e).__name__}", repr(e)[:500])
        return labels, V
    if W.shape != (n,) or Q.shape != (n, n):
        bad(f"complete:{tag}", f"shapes W{W.shape} Q{Q.shape}, expected ({n},) ({n},{n})")
        return labels, V
    if not (np.all(np.isfinite(W)) and np.all(np.isfinite(Q))):
        bad(f"finite:{tag}", "non-finite eigenvalues or eigenvectors")
        return labels, V
    _common_checks(bad, tag, A0, B0, W, Q, case["sorter"], target, fn, kind == "real_sym")
    # complete spectrum: independent computation
    M = A0 if B0 is None else np.linalg.solve(B0, A0)
    if herm_pencil and B0 is None:
        ref = np.linalg.eigvalsh(A0)
    else:
        ref = np.linalg.eigvals(M)
    sc = max(np.max(np.abs(ref)), 1e-300)
    d = _match(W, ref)
    if d > TOL_EIG * sc:
        bad(f"spectrum:{tag}", f"eigenvalue multiset differs from numpy.linalg by {d / sc:.3e} (relative)")
    if herm_pencil and np.max(np.abs(np.imag(W)), initial=0.0) > TOL_EIG * sc:
        bad(f"spectrum:{tag}", "Hermitian pencil with complex eigenvalues")
    return labels, V


# ----------------------------------------------------------------------------------------------------------------
# sparse FE pencils
def _side_nodes(dom, side):
    import numpy as _np
    nx, ny, nz = dom.nelx, dom.nely, dom.nelz
    dim = dom.dim
    ax = (side // 2) % dim
    hi = side % 2 == 1
    rng_ = [_np.arange(nx + 1), _np.arange(ny + 1), _np.arange(nz + 1) if dim == 3 else _np.array([0])]
    rng_[ax] = _np.array([[nx, ny, nz][ax] if hi else 0])
    I, J, K = _np.meshgrid(*rng_, indexing="ij")
    return _np.unique(_np.asarray(dom.get_nodenumber(I, J, K)).flatten())


def build_sparse(case):
    """Returns dict with the pymoto signals/matrices and the reference description."""
    import pymoto as pym
    import scipy.sparse as sps
    rng = np.random.default_rng(case["payload_seed"])
    dom = make_domain(case["dom"])
    ndof = dom.dim if case["phys"] == "elast" else 1
    n = ndof * dom.nnodes
    x = 0.2 + 0.8 * rng.random(dom.nel)
    xm = 0.2 + 0.8 * rng.random(dom.nel)
    rho = float(0.5 + rng.random())
    # boundary conditions
    if case["bc"] == "side":
        nodes = _side_nodes(dom, case["bc_side"])
        bc = np.concatenate([nodes * ndof + d for d in range(ndof)])
        rest = np.setdiff1d(np.arange(n), bc)
        ne = min(case["bc_extra"], max(len(rest) - 3, 0))
        if ne > 0:
            bc = np.concatenate([bc, rng.choice(rest, size=ne, replace=False)])
        bc = np.unique(bc)
    else:
        bc = None
    free = np.arange(n) if bc is None else np.setdiff1d(np.arange(n), bc)
    mt = sps.csc_matrix if case["fmt"] == "csc" else sps.csr_matrix
    emod = (1.0 + 0.4j) if case["cplx"] else 1.0
    sx, sxm = pym.Signal("x", x), pym.Signal("xm", xm)

    def assemble_K(bcv, kbc):
        kw = {"domain": dom, "matrix_type": mt}
        if bcv is not None:
            kw["bc"] = bcv
            if kbc is not None:
                kw["bcdiagval"] = kbc
        if case["phys"] == "elast":
            m = pym.AssembleStiffness(sx, e_modulus=emod, **kw)
        else:
            m = pym.AssemblePoisson(sx, material_property=emod, **kw)
        m.response()
        return m.sig_out[0].state

    def assemble_M(bcv, mbc):
        kw = {"domain": dom, "matrix_type": mt, "ndof": ndof}
        if bcv is not None:
            kw["bc"] = bcv
            kw["bcdiagval"] = mbc
        m = pym.AssembleMass(sxm, material_property=rho, **kw)
        m.response()
        return m.sig_out[0].state

    # physical (free-dof) spectrum from the unconstrained assembly -- independent of EigenSolve
    K0 = (np.asarray(assemble_K(None, None).todense()) / emod).real
    M0 = np.asarray(assemble_M(None, None).todense()) if case["gen"] else None
    Kff = K0[np.ix_(free, free)]
    if M0 is None:
        phys = np.linalg.eigvalsh(Kff) * emod
    else:
        C = np.linalg.cholesky(M0[np.ix_(free, free)])
        Ci = np.linalg.inv(C)
        S = Ci @ Kff @ Ci.T
        phys = np.linalg.eigvalsh(0.5 * (S + S.T)) * emod
    phys = np.asarray(phys)
    return {"dom": dom, "n": n, "ndof": ndof, "bc": bc, "free": free, "phys": phys, "assemble_K": assemble_K,
            "assemble_M": assemble_M, "emod": emod}


def _check_sparse(case):
    import pymoto as pym
    b = build_sparse(case)
    n, bc, free, phys, emod = b["n"], b["bc"], b["free"], b["phys"], b["emod"]
    nbc = 0 if bc is None else len(bc)
    gen, cplx = case["gen"], case["cplx"]
    labels = ["sparse", case["phys"], f"dim{b['dom'].dim}", "generalised" if gen else "standard",
              "complex" if cplx else "real", f"sigma_{case['sigma']}", f"bc_{case['bc']}", f"sorter_{case['sorter']}",
              "nondiagonal"]
    if n >= 3:
        labels.append("n>=3")
    # requested number of modes, limited by what ARPACK accepts (k < n for eigsh, k < n-1 for eigs)
    nm = case["nmodes"]
    k_eff = 6 if nm is None else nm
    phase = bool(case.get("phase")) and not cplx
    kmax = n - 2 if (cplx or phase) else n - 1
    if k_eff > kmax or len(free) < 2:
        labels.append("skipped_too_small")
        return labels, []
    labels.append(f"nmodes_{'default' if nm is None else nm}")
    # spurious bc modes and shift
    pr = np.sort(phys.real)                       # physical eigenvalues / emod are real and sorted
    pr_unit = np.sort((phys / emod).real)
    top = max(abs(pr_unit[-1]), abs(pr_unit[0]), 1e-12)
    mbc = 0.0
    if gen and bc is not None:
        # A mass matrix with zero bc diagonal (module default) is only positive SEMI-definite: ARPACK's Krylov space
        # (ncv = min(n, max(2k+1, 20)) vectors) must then fit in range(M), else ARPACK breaks down (error -9999).
        # Such tiny pencils are outside "B positive definite"; they get a positive bc diagonal instead.
        ncv = min(n, max(2 * k_eff + 1, 20))
        if case["mbc"] == "pos" or len(free) < ncv + 2:
            mbc = 0.37
        labels.append("mass_bc_zero" if mbc == 0.0 else "mass_bc_pos")
    kbc = None
    if bc is not None and case["kbc"] == "far":
        kbc = 25.0 * top * (mbc if mbc > 0 else 1.0)
    if case["sigma"] == "none":
        sigma_arg, sigma = None, 0.0
    elif case["sigma"] == "zero":
        sigma_arg, sigma = 0.0, 0.0
    else:
        # a point between two physical eigenvalues (0.3 of the spacing), or below the smallest one
        cand = np.flatnonzero(np.diff(pr_unit) > 1e-4 * top)     # skips e.g. the cluster of rigid-body modes
        if case["sigma_below"] or len(cand) == 0:
            sigma = float(pr_unit[0] - 0.3 * max(abs(pr_unit[0]), 0.1 * top))
        else:
            i = int(cand[case["sigma_idx"] % len(cand)])
            sigma = float(pr_unit[i] + 0.3 * (pr_unit[i + 1] - pr_unit[i]))
        sigma_arg = sigma
        if sigma == 0.0:
            sigma = sigma_arg = 0.011 * top
    # ARPACK mode: buckling uses A as inner-product matrix (A must be positive definite: needs boundary conditions);
    # in both special modes an infinite eigenvalue (singular M) maps to nu = 1 and could be "found": M gets a positive
    # bc diagonal there
    amode = case.get("amode", "normal")
    if cplx or phase or sigma_arg is None or sigma == 0.0 or (amode == "buckling" and bc is None):
        amode = "normal"
    if amode != "normal" and sigma <= pr_unit[0]:
        # a shift below the whole spectrum: all nu cluster at 1, ARPACK converges poorly or not at all (seen on the
        # unchanged tree: residual 6e-6, ArpackNoConvergence) -- a limitation of these modes, not of EigenSolve
        amode = "normal"
    if amode != "normal" and gen and bc is not None and mbc == 0.0:
        mbc = 0.37
        labels[labels.index("mass_bc_zero")] = "mass_bc_pos"
        if kbc is not None:
            kbc = 25.0 * top * mbc
    labels.append("mode_" + amode)
    V = []
    tag = "sparse:" + ("general" if cplx else "hermitian")

    def bad(sub, detail):
        V.append(viol(f"C11:{sub}", f"{detail} | {case['phys']} nel={case['dom']['nel']} gen={gen} cplx={cplx} "
                                    f"sigma={sigma_arg} nmodes={nm} bc={case['bc']} kbc={kbc} mbc={mbc} "
                                    f"sorter={case['sorter']} mode={case.get('amode')}"))

    ks = 1.0 if cplx else float(case.get("kscale", 1.0))
    K = b["assemble_K"](bc, kbc)
    if ks != 1.0:
        # everything above was chosen for the unscaled pencil; scale K, its eigenvalues and the shift together
        K = (K * ks).asformat(K.format)
        phys, pr_unit, top, sigma = phys * ks, pr_unit * ks, top * ks, sigma * ks
        sigma_arg = None if sigma_arg is None else sigma_arg * ks
        labels.append(f"kscale_{ks:g}")
    M = b["assemble_M"](bc, mbc) if gen else None
    if phase:
        import scipy.sparse as sps
        ph = np.random.default_rng([case["payload_seed"], 77]).uniform(-0.3, 0.3, n)
        D = sps.diags(np.exp(1j * ph))
        K = (D.conj() @ K @ D).asformat(K.format)
        if M is not None:
            M = (D.conj() @ M @ D).asformat(M.format)
        labels.append("complex_hermitian")
    Kd = np.asarray(K.todense())
    Md = None if M is None else np.asarray(M.todense())
    # reference spectrum: physical modes + nbc spurious modes K_bc/M_bc
    spur = np.inf
    if nbc:
        kdiag = Kd[bc[0], bc[0]]
        spur = kdiag / mbc if (gen and mbc > 0) else (kdiag if not gen else np.inf)
    ref = np.concatenate([phys, np.full(nbc, spur)]) if nbc else phys.copy()
    # distance to an eigenvalue must not vanish (singular shifted matrix)
    dist = np.abs(ref - sigma)
    if np.min(dist) < 1e-6 * top:
        labels.append("skipped_sigma_on_eigenvalue")
        return labels, []
    if amode == "normal":
        order = np.argsort(dist)
        want = ref[order[:k_eff]]
        dk = dist[order[k_eff - 1]]
        dnext = dist[order[k_eff]] if k_eff < len(ref) else np.inf
        conclusive = (dnext - dk) > 1e-3 * max(dk, 1e-3 * top)
        if nbc and nbc > 1 and np.isfinite(spur) and abs(spur - sigma) <= dnext * (1 + 1e-9):
            conclusive = False     # a multiple spurious eigenvalue inside / next to the window
            labels.append("spurious_in_window")
    else:
        # ARPACK returns the k eigenvalues whose TRANSFORMED value nu is largest in magnitude:
        # buckling nu = lam/(lam - sigma), cayley nu = (lam + sigma)/(lam - sigma); nu -> 1 for lam -> inf
        with np.errstate(invalid="ignore", divide="ignore"):
            nu = np.abs(ref / (ref - sigma)) if amode == "buckling" else np.abs((ref + sigma) / (ref - sigma))
        nu = np.where(np.isfinite(ref), nu, 1.0)
        order = np.argsort(-nu)
        want = ref[order[:k_eff]]
        nk = nu[order[k_eff - 1]]
        nnext = nu[order[k_eff]] if k_eff < len(ref) else 0.0
        conclusive = (nk - nnext) > 1e-3 * nk and np.all(np.isfinite(want))
        if nbc and nbc > 1:
            snu = nu[len(phys)]
            if snu >= nnext * (1 - 1e-9):
                conclusive = False
                labels.append("spurious_in_window")
    ws = np.sort_complex(want)
    if len(ws) > 1 and np.min(np.abs(np.diff(ws))) < 1e-6 * top:
        conclusive = False
    if not conclusive:
        labels.append("sparse_set_inconclusive")
    target = sigma + 0.1 * top
    fn = _sorter(case["sorter"], target)
    kwargs = {}
    if fn is not None:
        kwargs["sorting_func"] = fn
    if nm is not None:
        kwargs["nmodes"] = nm
    if sigma_arg is not None:
        kwargs["sigma"] = sigma_arg
    if case["hint"]:
        kwargs["hermitian"] = not cplx
        labels.append("hint")
    if amode != "normal":
        kwargs["mode"] = amode
    sigs = [pym.Signal("K", K)] + ([] if M is None else [pym.Signal("M", M)])
    try:
        mod = pym.EigenSolve(sigs, **kwargs)
        mod.response()
        W, Q = [np.asarray(s.state) for s in mod.sig_out]
    except Exception as e:
        bad(f"raises:{tag}:{type(e).__name__}", repr(e)[:500])
        return labels, V
    if W.shape != (k_eff,) or Q.shape != (n, k_eff):
        bad(f"count:{tag}", f"shapes W{W.shape} Q{Q.shape}, expected ({k_eff},) ({n},{k_eff})")
        return labels, V
    if not (np.all(np.isfinite(W)) and np.all(np.isfinite(Q))):
        bad(f"finite:{tag}", "non-finite eigenvalues or eigenvectors")
        return labels, V
    # buckling / cayley: ARPACK maps nu back to lam = sigma nu/(nu-1) resp. sigma (nu+1)/(nu-1), which amplifies its
    # round-off by (lam-sigma)^2/|sigma|: residuals of 1e-8 are seen on the unchanged tree, 1e-6 is allowed
    _common_checks(bad, tag, Kd, Md, W, Q, case["sorter"], target, fn, not cplx and not phase,
                   tol_res=None if amode == "normal" else 1e-6)
    if conclusive:
        sc = max(np.max(np.abs(want)), abs(sigma), 1e-300)
        d = _match(W, want)
        if d > TOL_EIG_SPARSE * sc:
            bad(f"closest_to_sigma:{tag}" + ("" if amode == "normal" else ":" + amode), f"returned {np.array2string(np.sort_complex(W), precision=6)} but the {k_eff} "
                                           f"eigenvalues closest to sigma={sigma:.6g} are "
                                           f"{np.array2string(np.sort_complex(want), precision=6)} (diff {d / sc:.2e})")
    return labels, V
