"""C20 — result files decode back to the data that was written (WriteToVTI / DomainDefinition.write_to_vti,
ScalarToFile).

Round-trip oracle: the files are read back with xml.etree + base64 + struct (VTI) or str.split (log file) and compared
with the inputs. Everything is written below a tempfile.TemporaryDirectory() that is removed inside check_case.
"""
import base64
import os
import re
import struct
import sys
import tempfile
import xml.etree.ElementTree as ET

import numpy as np
from hypothesis import strategies as st
from pbt.harness import viol

PROPERTY_ID = "C20"
RULE = ("case = either a VTI history (domain with nnodes % nel != 0, 1..4 arrays: element/node data with 1..3 "
        "components, 1-D or block (k, c*n) / (c*n, k), float64/float32/int64, scale, optional origin via write_to_vti, overwrite "
        "on/off, 1..5 iterations with changing data, nested output directory, file name with/without .vti) or a "
        "ScalarToFile history (1..4 signals: python/numpy scalars, 0-d arrays, vectors of length 1..6, small matrices; "
        "format, separator / .csv, 1..6 calls with changing values, optional stale file). Non-trivial = VTI: cell and "
        "point data in one file or >= 2 iterations; log: >= 2 calls or >= 2 columns. Distinct = sha1 of the case JSON.")
FUZZ = {"quick": 0, "thorough": 3000, "instrument": "pymoto.modules.io"}
ASSUMPTIONS = [
    "only domains with nnodes % nel != 0 (property's restriction)",
    "node arrays only when their size is not a multiple of nel (element arrays of any size: 'multiple of nel' is tested first), "
    "block count k not a multiple of nel (nnodes); ambiguous arrays drawn by the generator are dropped and counted "
    "under the label ambiguous_excluded",
    "block vectors in both orientations the code accepts: rows (k, c*n) and columns (c*n, k); nodal data with 2 components only in 2-D domains",
    "signal tags are distinct plain words without XML-special or separator characters, none a prefix of another",
    "matrices are logged only with separators that do not occur in their column names (tab, ';'): the header of a "
    "matrix column is 'tag[i, j]', which collides with ',' and ' '; the docstring only promises vectors",
    "the numeric value of the UInt64 block header is recorded (labels hdr_*), not asserted",
    "real finite data; complex data are not claimed",
]

VTI_TAGS = ["rho", "disp", "sens", "T", "vm_stress", "phi 2"]
LOG_TAGS = ["f", "g1", "volume", "eig", "lam_2", "c"]
FMTS = ["e", "f", "g", ".3e", ".5g", ".3f", ".10e"]
SEPS = ["\t", " ", ";"]


def budget(tier):
    return {"examples": 6000 if tier == "quick" else 80000, "shards": 16, "shrink": 300 if tier == "quick" else 1500}


def nontrivial(labels):
    return "nontrivial" in labels


# ----------------------------------------------------------------------------------------------------------------
def _dom_ok(nel3):
    nx, ny, nz = nel3
    nel = nx * ny * max(nz, 1)
    nn = (nx + 1) * (ny + 1) * (nz + 1)
    return nn % nel != 0


EXHAUSTIVE = False
EXHAUSTIVE_NOTE = ("a fixed list of large VTI cases (one array with more than 2**16 and "
                   "one with more than 2**17 float32 values, 2D and 3D) that the size-bounded generator never reaches")


def enumerate_cases(tier):
    """Large domains: arrays whose float32 payload is longer than 65536 / 131072 values (block-wise encoders)."""
    def arr(kind, ncomp, nblock, tag, seed, cols=False, dtype="f8"):
        return {"kind": kind, "ncomp": ncomp, "nblock": nblock, "dtype": dtype, "cols": cols, "seed": seed, "tag": tag}
    base = {"what": "vti", "scale": 1.0, "direct": False, "origin": None, "overwrite": True, "iters": 1, "subdir": [],
            "fname": "out.vti"}
    out = [
        dict(base, dom={"nel": [181, 121, 0], "unit": [1.0, 1.0, 1.0]},
             arrays=[arr("node", 3, 0, "disp", 1), arr("elem", 1, 0, "rho", 2)]),
        dict(base, dom={"nel": [41, 31, 17], "unit": [0.5, 1.0, 2.0]}, scale=2.0,
             arrays=[arr("node", 3, 0, "disp", 3), arr("elem", 1, 0, "rho", 4, dtype="f4")]),
        dict(base, dom={"nel": [181, 121, 0], "unit": [1.0, 1.0, 1.0]}, iters=2, overwrite=False, fname="big",
             arrays=[arr("node", 2, 2, "sens", 5), arr("elem", 1, 3, "T", 6, cols=True)]),
        dict(base, dom={"nel": [300, 233, 0], "unit": [1.0, 1.0, 1.0]},
             arrays=[arr("elem", 1, 0, "rho", 7), arr("node", 1, 0, "T", 8)]),
    ]
    return out


def strategy(tier):
    big = tier != "quick"
    seed = st.integers(0, 2 ** 31 - 1)
    unit = st.one_of(st.sampled_from([1.0, 0.5, 2.0]), st.floats(0.2, 5.0, allow_nan=False).map(lambda v: round(v, 3)))
    subdir = st.lists(st.sampled_from(["out", "res_1", "a b", "vti", "run.2"]), max_size=2)

    @st.composite
    def dom(draw):
        if draw(st.integers(0, 4)) < 3:
            nel = [draw(st.integers(1, 7 if big else 5)), draw(st.integers(1, 7 if big else 5)), 0]
        else:
            nel = [draw(st.integers(1, 4 if big else 3)) for _ in range(3)]
        if not _dom_ok(nel):
            nel = [nel[0] + 1, nel[1] + 2, 0] if nel[2] == 0 else [2, 2, nel[2] + 1]
        if not _dom_ok(nel):
            nel = [2, 2, 0] if nel[2] == 0 else [2, 2, 2]
        return {"nel": nel, "unit": [draw(unit), draw(unit), draw(unit)]}

    arr = st.fixed_dictionaries({
        "kind": st.sampled_from(["elem", "node"]), "ncomp": st.sampled_from([1, 1, 2, 2, 3]),
        "nblock": st.sampled_from([0, 0, 0, 1, 2, 3, 5, 11]), "dtype": st.sampled_from(["f8", "f8", "f4", "i8"]),
        "cols": st.sampled_from([False, False, True]),   # block vectors stored as columns: shape (c*n, k)
        "seed": seed})

    @st.composite
    def vti(draw):
        arrays = draw(st.lists(arr, min_size=1, max_size=4))
        tags = draw(st.permutations(VTI_TAGS))
        for a, t in zip(arrays, tags):
            a["tag"] = t
        direct = draw(st.sampled_from([False, False, True]))
        return {"what": "vti", "dom": draw(dom()), "arrays": arrays,
                "scale": draw(st.one_of(st.sampled_from([1.0, 0.5, 2.0, 1e-3]), st.floats(0.01, 100.0).map(lambda v: round(v, 4)))),
                "direct": direct,
                "origin": [draw(st.sampled_from([0.0, 1.0, -2.5, 0.125])) for _ in range(3)] if direct else None,
                # an earlier file written from the same DomainDefinition object with another scale and origin
                "prewrite": draw(st.sampled_from([False, False, True])),
                "overwrite": draw(st.booleans()), "iters": draw(st.integers(1, 5)), "subdir": draw(subdir),
                "fname": draw(st.sampled_from(["out.vti", "out", "result_3.vti", "density"]))}

    val = st.fixed_dictionaries({
        "kind": st.sampled_from(["pyfloat", "pyint", "npfloat", "npfloat32", "npint", "arr0", "vec", "vec", "vec", "mat",
                                 "pycomplex", "cvec"]),    # complex scalars / vectors (e.g. eigenvalues of a damped system)
        "shape": st.lists(st.integers(1, 3), min_size=2, max_size=2), "len": st.integers(1, 6),
        "dtype": st.sampled_from(["f8", "f8", "i8"]), "seed": seed,
        "layout": st.sampled_from(["C", "C", "F", "rev"])})

    @st.composite
    def log(draw):
        values = draw(st.lists(val, min_size=1, max_size=4))
        tags = draw(st.permutations(LOG_TAGS))
        for v, t in zip(values, tags):
            v["tag"] = t
        csv = draw(st.sampled_from([False, False, True]))
        return {"what": "log", "values": values, "fmt": draw(st.sampled_from(FMTS)), "sep": draw(st.sampled_from(SEPS)),
                "csv": csv, "default_args": draw(st.sampled_from([False, False, False, True])),
                "calls": draw(st.integers(1, 6)), "subdir": draw(subdir),
                "stale": draw(st.sampled_from([False, False, True]))}
    return st.one_of(vti(), log())


# ----------------------------------------------------------------------------------------------------------------
# VTI
def _vti_data(a, n_per, it):
    """The array written for spec a in iteration it (n_per = nel or nnodes)."""
    rng = np.random.default_rng([a["seed"], it])
    k, c = a["nblock"], a["ncomp"]
    shape = (c * n_per,) if k == 0 else (k, c * n_per)
    if a["dtype"] == "i8":
        x = rng.integers(-1000, 1000, size=shape).astype(np.int64)
    else:
        x = rng.standard_normal(shape) * 10.0 ** rng.integers(-3, 4)
        x.reshape(-1)[rng.integers(0, x.size)] = 0.0
        x = x.astype(np.float32) if a["dtype"] == "f4" else x
    if k > 0 and a.get("cols"):
        x = np.ascontiguousarray(x.T)     # same blocks, stored as columns (c*n, k)
    return x


def _unambiguous(a, nel, nn):
    k, c = max(a["nblock"], 1), a["ncomp"]
    if a["kind"] == "elem":
        # an element array whose size is ALSO a multiple of nnodes (3 components on a 4x5 grid: 60 = 3*20 = 2*30) is kept:
        # write_to_vti tests "multiple of nel" first, so element data written as such decodes as cell data
        return a["nblock"] == 0 or k % nel != 0
    size = k * c * nn
    return size % nel != 0 and (a["nblock"] == 0 or k % nn != 0)


def _decode_vti(path, bad):
    """Parse one file -> dict(extent, whole, spacing, origin, arrays=[(section, name, ncomp, float32 array, hdr, enc)])."""
    try:
        root = ET.parse(path).getroot()
    except ET.ParseError as e:
        bad("vti:not_well_formed", f"{os.path.basename(path)}: {e}")
        return None
    if root.tag != "VTKFile" or root.get("type") != "ImageData" or root.get("header_type") != "UInt64":
        bad("vti:root_attributes", f"{root.tag} {root.attrib}")
        return None
    bo = root.get("byte_order")
    if bo != ("LittleEndian" if sys.byteorder == "little" else "BigEndian"):
        bad("vti:byte_order", f"byte_order={bo!r} on a {sys.byteorder}-endian machine")
        return None
    e = "<" if bo == "LittleEndian" else ">"
    imgs = root.findall("ImageData")
    pieces = imgs[0].findall("Piece") if len(imgs) == 1 else []
    if len(imgs) != 1 or len(pieces) != 1 or len(list(root)) != 1 or len(list(imgs[0])) != 1:
        bad("vti:structure", f"{len(imgs)} ImageData / {len(pieces)} Piece elements")
        return None
    out = {"arrays": []}
    try:
        out["whole"] = [int(t) for t in imgs[0].get("WholeExtent").split()]
        out["extent"] = [int(t) for t in pieces[0].get("Extent").split()]
        out["spacing"] = [float(t) for t in imgs[0].get("Spacing").split()]
        out["origin"] = [float(t) for t in imgs[0].get("Origin").split()]
    except (ValueError, AttributeError) as ex:
        bad("vti:geometry_attributes", f"{imgs[0].attrib} {pieces[0].attrib}: {ex!r}")
        return None
    for sec in pieces[0]:
        if sec.tag not in ("PointData", "CellData") or len(pieces[0].findall(sec.tag)) != 1:
            bad("vti:structure", f"unexpected or repeated section {sec.tag}")
            return None
        for da in sec:
            if da.tag != "DataArray" or da.get("type") != "Float32" or da.get("format") != "binary":
                bad("vti:dataarray_attributes", f"{da.tag} {da.attrib}")
                return None
            txt = "".join((da.text or "").split())
            try:
                hdr = struct.unpack(e + "Q", base64.b64decode(txt[:12], validate=True))[0]
                raw = base64.b64decode(txt[12:], validate=True)
                ncomp = int(da.get("NumberOfComponents"))
            except Exception as ex:
                bad("vti:base64", f"array {da.get('Name')!r}: {ex!r}")
                return None
            if len(raw) % 4:
                bad("vti:base64", f"array {da.get('Name')!r}: {len(raw)} data bytes")
                return None
            out["arrays"].append((sec.tag, da.get("Name"), ncomp, np.frombuffer(raw, dtype=e + "f4"), hdr, len(txt) - 12))
    return out


def _check_vti(case, pym, tmp, labels, bad):
    import pbt.common as common
    dom = common.make_domain(case["dom"])
    nx, ny, nz = case["dom"]["nel"]
    nel, nn, dim = dom.nel, dom.nnodes, dom.dim
    if nn % nel == 0:
        labels.append("excluded_domain")
        return
    labels.append(f"dim{dim}")
    specs = []
    for a in case["arrays"]:
        if a["kind"] == "node" and a["ncomp"] == 2 and dim == 3:
            a = dict(a, ncomp=3)
        if _unambiguous(a, nel, nn):
            specs.append(a)
            if a["kind"] == "elem" and (max(a["nblock"], 1) * a["ncomp"] * nel) % nn == 0:
                labels.append("elem_size_also_multiple_of_nnodes")
        else:
            labels.append("ambiguous_excluded")
    if not specs:
        specs = [{"kind": "elem", "ncomp": 1, "nblock": 0, "dtype": "f8", "seed": 0, "tag": "rho"}]
    kinds = {a["kind"] for a in specs}
    for a in specs:
        labels += [a["kind"], f"ncomp{a['ncomp']}", "dtype_" + a["dtype"],
                   "vector1d" if a["nblock"] == 0 else ("block_k1" if a["nblock"] == 1 else "block")]
        if a["kind"] == "node" and a["ncomp"] == 2:
            labels.append("padded_2d")
    direct = case["direct"]
    iters = 1 if direct else case["iters"]
    if len(kinds) == 2 or iters >= 2:
        labels.append("nontrivial")
    labels.append("direct_write_to_vti" if direct else ("overwrite" if case["overwrite"] else "file_per_iteration"))
    scale = case["scale"]
    origin = case["origin"] if direct else [0.0, 0.0, 0.0]
    saveto = os.path.join(tmp, *case["subdir"], case["fname"])
    base = saveto[:-4] if saveto.endswith(".vti") else saveto
    data = [[_vti_data(a, nel if a["kind"] == "elem" else nn, it) for a in specs] for it in range(iters)]
    sigs = [pym.Signal(a["tag"]) for a in specs]
    if case.get("prewrite"):
        # call history on the domain object: it already wrote a file, with a different scale and origin
        import tempfile
        with tempfile.TemporaryDirectory(prefix="c20_pre_") as tmp2:
            try:
                dom.write_to_vti({"pre": np.zeros(nel)}, filename=os.path.join(tmp2, "pre.vti"), scale=7.0 * scale + 1.0,
                                 origin=(1.0, 2.0, 3.0))
            except Exception as e:
                bad(f"raises:vti:{type(e).__name__}:prewrite", f"{e!r}"[:500])
                return
        labels.append("domain_wrote_another_file_before")
    # ---- write
    try:
        if direct:
            os.makedirs(os.path.dirname(saveto), exist_ok=True)
            dom.write_to_vti({a["tag"]: d.copy() for a, d in zip(specs, data[0])}, filename=saveto, scale=scale,
                             origin=tuple(origin))
        else:
            mod = pym.WriteToVTI(sigs, domain=dom, saveto=saveto, overwrite=case["overwrite"], scale=scale)
            for it in range(iters):
                for s, d in zip(sigs, data[it]):
                    s.state = d.copy()
                mod.response()
    except Exception as e:
        k1pad = any(a["nblock"] == 1 and a["kind"] == "node" and a["ncomp"] == 2 for a in specs)
        bad(f"raises:vti:{type(e).__name__}" + (":single_block_2d_nodal_vector" if k1pad else ""),
            f"{e!r}"[:500] + f" | arrays={[(a['kind'], a['ncomp'], a['nblock'], a['dtype']) for a in specs]}")
        return
    # ---- which files exist
    found = sorted(os.path.relpath(os.path.join(r, f), tmp) for r, _, fs in os.walk(tmp) for f in fs)
    if direct or case["overwrite"]:
        expect = {os.path.relpath(base + ".vti", tmp): iters - 1}
    else:
        expect = {os.path.relpath(f"{base}.{it:04d}.vti", tmp): it for it in range(iters)}
    if found != sorted(expect):
        bad("vti:file_names", f"files {found}, expected {sorted(expect)} (saveto={os.path.relpath(saveto, tmp)!r}, "
                              f"overwrite={case['overwrite']}, iterations={iters})")
        return
    # ---- content
    for rel, it in expect.items():
        dec = _decode_vti(os.path.join(tmp, rel), bad)
        if dec is None:
            return
        ext = [0, nx, 0, ny, 0, nz]
        if dec["whole"] != ext or dec["extent"] != ext:
            bad("vti:extent", f"WholeExtent={dec['whole']} Extent={dec['extent']}, domain {nx}x{ny}x{nz}")
        sp = [u * scale for u in case["dom"]["unit"]]
        if len(dec["spacing"]) != 3 or not np.allclose(dec["spacing"][:dim], sp[:dim], rtol=1e-12, atol=0) \
                or not np.all(np.isfinite(dec["spacing"])):
            bad("vti:spacing", f"Spacing={dec['spacing']}, element size {case['dom']['unit']} x scale {scale}")
        og = [o * scale for o in origin]
        if len(dec["origin"]) != 3 or not np.allclose(dec["origin"], og, rtol=1e-12, atol=1e-300):
            bad("vti:origin", f"Origin={dec['origin']}, origin {origin} x scale {scale}")
        names = [a[1] for a in dec["arrays"]]
        if len(set(names)) != len(names) or any(not n for n in names):
            bad("vti:names_not_unique", f"{names}")
        for a, d in zip(specs, data[it]):
            sec = "CellData" if a["kind"] == "elem" else "PointData"
            mine = [x for x in dec["arrays"] if x[1] is not None and x[1].startswith(a["tag"])]
            if d.ndim == 1:
                rows = [d]
            elif a.get("cols"):
                rows = [d[:, i] for i in range(d.shape[1])]
                labels.append("block_columns")
            else:
                rows = [d[i] for i in range(d.shape[0])]
            what = f"{a['kind']} data '{a['tag']}' shape {d.shape} {d.dtype}"
            if len(mine) != len(rows):
                bad("vti:array_count", f"{what}: {len(mine)} DataArrays named after it ({[m[1] for m in mine]}), "
                                       f"{len(rows)} expected")
                continue
            for i, (row, (s, name, ncomp, vals, hdr, enc)) in enumerate(zip(rows, mine)):
                want = np.asarray(row).astype(np.float32).reshape(-1)
                wcomp = a["ncomp"]
                if a["kind"] == "node" and a["ncomp"] == 2 and dim == 2:
                    want = np.column_stack([want[0::2], want[1::2], np.zeros(nn, dtype=np.float32)]).reshape(-1)
                    wcomp = 3
                if s != sec:
                    bad(f"vti:section:{a['kind']}", f"{what}: array {name!r} is under {s}, expected {sec}")
                if ncomp != wcomp:
                    bad(f"vti:number_of_components:{a['kind']}", f"{what}: array {name!r} NumberOfComponents={ncomp}, "
                                                               f"expected {wcomp}")
                if vals.shape != want.shape or not np.array_equal(vals, want):
                    bad(f"vti:values:{a['kind']}{':padded' if wcomp != a['ncomp'] else ''}",
                        f"{what} iteration {it} block {i}: decoded {vals[:8].tolist()}... ({vals.size} values), "
                        f"expected {want[:8].tolist()}... ({want.size} values) in file {rel}")
                labels.append("hdr_encoded_length" if hdr == enc else
                              ("hdr_raw_bytes" if hdr == 4 * vals.size else "hdr_other"))
        extra = [n for n in names if n is None or not any(n.startswith(a["tag"]) for a in specs)]
        if extra:
            bad("vti:unexpected_arrays", f"{extra}")


# ----------------------------------------------------------------------------------------------------------------
# log file
def _log_value(v, call):
    rng = np.random.default_rng([v["seed"], call])
    k = v["kind"]

    def num(shape=()):
        x = rng.standard_normal(shape) * 10.0 ** rng.integers(-4, 5, size=shape)
        return np.where(rng.random(shape) < 0.1, 0.0, x)
    if k == "pyfloat":
        return float(num())
    if k == "pyint":
        return int(rng.integers(-10 ** 6, 10 ** 6))
    if k == "pycomplex":
        return complex(float(num()), float(num()))
    if k == "cvec":
        return np.asarray(num((v["len"],)), dtype=float) + 1j * np.asarray(num((v["len"],)), dtype=float)
    if k == "npfloat":
        return np.float64(num())
    if k == "npfloat32":
        return np.float32(num())
    if k == "npint":
        return np.int64(rng.integers(-10 ** 6, 10 ** 6))
    if k == "arr0":
        return np.array(float(num()))
    shape = (v["len"],) if k == "vec" else tuple(v["shape"])
    if v["dtype"] == "i8":
        x = rng.integers(-10 ** 4, 10 ** 4, size=shape).astype(np.int64)
    else:
        x = np.asarray(num(shape), dtype=float)
    lay = v.get("layout", "C")      # memory layout of the logged array: C order, Fortran order, or a reversed view
    if lay == "F" and x.ndim == 2:
        x = np.asfortranarray(x)
    elif lay == "rev":
        x = x[::-1]
    return x


def _check_log(case, pym, tmp, labels, bad):
    values = [dict(v) for v in case["values"]]
    default = case["default_args"]
    fmt = ".10e" if default else case["fmt"]
    sep_arg = "\t" if default else case["sep"]
    for v in values:
        if v["kind"] == "mat" and (case["csv"] or sep_arg == " "):
            v["kind"] = "vec"               # matrix column names contain ', ' (see ASSUMPTIONS)
    sep = "," if case["csv"] else sep_arg
    ncols = 0
    for v in values:
        x = _log_value(v, 0)
        ncols += int(np.size(x))
        labels.append("kind_" + v["kind"])
        if v["kind"] in ("vec", "mat", "cvec"):
            labels.append("size1_array" if np.size(x) == 1 else "array_size2+")
    labels += ["csv" if case["csv"] else "sep_" + {"\t": "tab", " ": "space", ";": "semicolon"}[sep_arg],
               "fmt_default" if default else "fmt_" + fmt]
    if case["calls"] >= 2 or ncols >= 2:
        labels.append("nontrivial")
    path = os.path.join(tmp, *case["subdir"], "log.csv" if case["csv"] else "history.txt")
    if case["stale"]:
        labels.append("stale_file")
        os.makedirs(os.path.dirname(path), exist_ok=True)
        with open(path, "w") as fh:
            fh.write("old content\n1 2 3\n")
    sigs = [pym.Signal(v["tag"]) for v in values]
    written = []
    try:
        mod = pym.ScalarToFile(sigs, saveto=path) if default else pym.ScalarToFile(sigs, saveto=path, fmt=fmt, separator=sep_arg)
        for call in range(case["calls"]):
            row = [_log_value(v, call) for v in values]
            for s, x in zip(sigs, row):
                s.state = x.copy(order="K") if isinstance(x, np.ndarray) and x.flags.contiguous else x
            mod.response()
            written.append(row)
    except Exception as e:
        size1 = any(v["kind"] in ("vec", "mat", "cvec") and np.size(_log_value(v, 0)) == 1 for v in values)
        bad(f"raises:log:{type(e).__name__}" + (":size1_array" if size1 else ""),
            f"{e!r}"[:400] + f" | values={[(v['kind'], np.shape(_log_value(v, 0))) for v in values]} fmt={fmt!r}")
        return
    found = sorted(os.path.relpath(os.path.join(r, f), tmp) for r, _, fs in os.walk(tmp) for f in fs)
    if found != [os.path.relpath(path, tmp)]:
        bad("log:file_names", f"files {found}, expected {[os.path.relpath(path, tmp)]}")
        return
    with open(path, newline="") as fh:
        text = fh.read()
    lines = text.split("\n")
    if lines[-1] != "" or len(lines) - 1 != 1 + case["calls"]:
        bad("log:line_count", f"{len(lines) - 1} complete lines (+ trailing {lines[-1]!r}), expected one header line and "
                              f"{case['calls']} rows: {text[:300]!r}")
        return
    header = lines[0].split(sep)
    if len(header) != 1 + ncols:
        bad("log:header_columns", f"header {lines[0]!r} has {len(header)} columns, expected {1 + ncols}")
    else:
        col = 1
        for v in values:
            n = int(np.size(_log_value(v, 0)))
            names = header[col:col + n]
            if any(not h.startswith(v["tag"]) for h in names) or len(set(names)) != n:
                bad("log:header_names", f"columns {names} for signal {v['tag']!r}")
            col += n
        if not header[0] or header[0][0].isdigit():
            bad("log:header_names", f"first header column {header[0]!r}")
    for k, (line, row) in enumerate(zip(lines[1:-1], written)):
        cols = line.split(sep)
        if len(cols) != 1 + ncols:
            bad("log:row_columns", f"row {k} {line!r} has {len(cols)} columns, expected {1 + ncols}")
            return
        try:
            it = int(cols[0])
        except ValueError:
            it = None
        if it != k:
            bad("log:iteration_column", f"row {k}: first column {cols[0]!r}")
        # expected value of every column: the entry its header name points at ("tag[i, j]"); C order as fall-back
        flat = []
        hcol = 1
        for val in row:
            arr = np.asarray(val)
            nv = int(arr.size)
            for q in range(nv):
                name = header[hcol + q] if len(header) == 1 + ncols else ""
                mm = re.search(r"\[([0-9, ]*)\]\s*$", name)
                idx = tuple(int(t) for t in mm.group(1).replace(" ", "").split(",") if t != "") if mm else None
                if idx is not None and len(idx) == arr.ndim and all(0 <= a < b for a, b in zip(idx, arr.shape)) and nv > 1:
                    flat.append(arr[idx].item())
                else:
                    flat.append(arr.reshape(-1)[q].item())
            hcol += nv
        for j, (c, x) in enumerate(zip(cols[1:], flat)):
            conv = complex if isinstance(x, complex) else float      # complex values are logged as 'a+bj'
            want = conv(format(x, fmt))
            try:
                gotv = conv(c)
            except ValueError:
                gotv = None
            if gotv is None or gotv != want:
                bad("log:value", f"row {k} column {j + 1}: {c!r}, expected {format(x, fmt)!r} (value {x!r}, format {fmt!r})")
                return


# ----------------------------------------------------------------------------------------------------------------
def check_case(case):
    import pymoto as pym
    labels, V = [case["what"]], []

    def bad(bucket, detail):
        V.append(viol(f"C20:{bucket}", detail))

    with tempfile.TemporaryDirectory(prefix="c20_") as tmp:
        if case["what"] == "vti":
            _check_vti(case, pym, tmp, labels, bad)
        else:
            _check_log(case, pym, tmp, labels, bad)
    return sorted(set(labels)), V
