"""Common runner for all property checks.

    python -m pbt.harness <ID> [--tier quick|thorough] [--replay FILE] [--examples N] [--shards N]

Flow (DESIGN.md section 2.2):
  0. replay every committed file in replays/<ID>/ through check_case (no Hypothesis involved)
  1. optional exhaustive enumeration (module.enumerate_cases(tier))
  2. sharded Hypothesis generation pass (generate phase only): *record* every violating case, never stop early
  3. bucket violations; violations explained by known_findings.jsonl are reported as KNOWN-FINDING and excluded
  4. shrink one representative per unexplained bucket (hypothesis.find under an example budget), write it to
     failures/<ID>/<hash>.json, print "VIOLATION property=<ID> replay=<path>", exit 1
  5. write evidence/<ID>.json

Exit codes: 0 held, 1 violation, 2 harness/setup error (never prints VIOLATION).
"""
import argparse
import hashlib
import importlib
import json
import multiprocessing as mp
import os
import pkgutil
import random
import sys
import time
import traceback

HERE = os.path.dirname(os.path.dirname(os.path.abspath(__file__)))


class HarnessError(Exception):
    pass


# ----------------------------------------------------------------------------------------------------------------
# helpers
def _json_default(o):
    import numpy as np
    if isinstance(o, (np.integer,)):
        return int(o)
    if isinstance(o, (np.floating,)):
        return float(o)
    if isinstance(o, (np.bool_,)):
        return bool(o)
    if isinstance(o, np.ndarray):
        return o.tolist()
    if isinstance(o, complex):
        return {"re": o.real, "im": o.imag}
    if isinstance(o, (set, frozenset, tuple)):
        return list(o)
    raise TypeError(f"not JSON serialisable: {type(o)}")


def canon(case):
    return json.dumps(case, sort_keys=True, separators=(",", ":"), default=_json_default)


def case_hash(case):
    return hashlib.sha1(canon(case).encode()).hexdigest()[:16]


def viol(bucket, detail="", **extra):
    """Create a violation record. bucket: short stable string naming the root-cause class."""
    d = {"bucket": str(bucket), "detail": str(detail)[:2000]}
    d.update(extra)
    return d


def find_module(pid):
    import pbt.props as props
    for m in pkgutil.iter_modules(props.__path__):
        if m.name.lower().startswith(pid.lower() + "_") or m.name.lower() == pid.lower():
            return importlib.import_module("pbt.props." + m.name)
    raise HarnessError(f"no property module for {pid}")


def check_repo_import():
    repo = os.path.realpath(os.environ.get("VERIF_REPO", "/repo"))
    import pymoto
    f = os.path.realpath(pymoto.__file__)
    if not f.startswith(repo + os.sep + "pymoto" + os.sep):
        raise HarnessError(f"pymoto imported from {f}, expected under {repo}/pymoto")
    return repo


def in_thread(fn, *args):
    """Run fn(*args) in a fresh thread and return its result (exceptions are re-raised in the caller).

    Only a cost measure: pyMOTO's Signal/Module constructors call inspect.stack(), whose cost is proportional to the
    Python stack depth (harness -> multiprocessing -> Hypothesis -> check_case is ~60 frames deep, which made object
    construction dominate the run time). A fresh thread starts with an empty stack; it is joined before returning, so
    nothing outlives a case and the verdict does not depend on it."""
    import threading
    box = {}

    def run():
        try:
            box["r"] = fn(*args)
        except BaseException as e:   # propagate everything, incl. bugs of the check itself (exit 2)
            box["e"] = e
    th = threading.Thread(target=run)
    th.start()
    th.join()
    if "e" in box:
        raise box["e"]
    return box["r"]


def eval_case(mod, case):
    """Run check_case with the global numpy RNG pinned; returns (labels, violations)."""
    import numpy as np
    np.random.seed(int(case_hash(case), 16) % (2 ** 32))
    if threading_enabled():
        labels, violations = in_thread(mod.check_case, case)
    else:
        labels, violations = mod.check_case(case)
    return list(labels), list(violations)


def threading_enabled():
    import threading
    return os.environ.get("VERIF_NO_THREAD") != "1" and threading.current_thread() is threading.main_thread()


# ----------------------------------------------------------------------------------------------------------------
# known findings
def load_findings(pid):
    path = os.path.join(HERE, "known_findings.jsonl")
    out = []
    if os.path.exists(path):
        with open(path) as fh:
            for line in fh:
                line = line.strip()
                if not line or line.startswith("#"):
                    continue
                rec = json.loads(line)
                if rec.get("property") == pid and rec.get("status") == "known":
                    out.append(rec)
    return out


def explain(violation, case, known):
    """Return the id of the known finding that is exactly this violation, or None."""
    if not known:
        return None
    from pbt import findings
    for rec in known:
        fn = getattr(findings, "match_" + rec["matcher"])
        if fn(violation, case, rec.get("params", {})):
            return rec["id"]
    return None


# ----------------------------------------------------------------------------------------------------------------
# result accumulation
def new_result():
    return {"evaluations": 0, "hashes": set(), "nt_hashes": set(), "classes": {}, "samples": [], "viol": {},
            "nviol_cases": 0, "known": {}}


def record_case(mod, res, case, known, max_samples=2):
    labels, violations = eval_case(mod, case)
    res["evaluations"] += 1
    h = case_hash(case)
    res["hashes"].add(h)
    for lb in labels:
        res["classes"][lb] = res["classes"].get(lb, 0) + 1
    if mod.nontrivial(labels):
        if h not in res["nt_hashes"] and len(res["samples"]) < max_samples:
            res["samples"].append(case)
        res["nt_hashes"].add(h)
    if violations:
        res["nviol_cases"] += 1
    for v in violations:
        kid = explain(v, case, known)
        if kid is not None:
            res["known"][kid] = res["known"].get(kid, 0) + 1
            continue
        b = res["viol"].setdefault(v["bucket"], {"count": 0, "cases": []})
        b["count"] += 1
        if len(b["cases"]) < 3:
            b["cases"].append((case, v))
        else:  # keep the smallest representatives
            big = max(range(3), key=lambda i: len(canon(b["cases"][i][0])))
            if len(canon(case)) < len(canon(b["cases"][big][0])):
                b["cases"][big] = (case, v)


def merge(results):
    tot = new_result()
    for r in results:
        if "error" in r:
            raise HarnessError(r["error"])
        tot["evaluations"] += r["evaluations"]
        tot["hashes"] |= r["hashes"]
        tot["nt_hashes"] |= r["nt_hashes"]
        tot["nviol_cases"] += r["nviol_cases"]
        for k, v in r["known"].items():
            tot["known"][k] = tot["known"].get(k, 0) + v
        for k, v in r["classes"].items():
            tot["classes"][k] = tot["classes"].get(k, 0) + v
        tot["samples"].extend(r["samples"])
        for b, info in r["viol"].items():
            t = tot["viol"].setdefault(b, {"count": 0, "cases": []})
            t["count"] += info["count"]
            t["cases"].extend(info["cases"])
    return tot


# ----------------------------------------------------------------------------------------------------------------
# workers
def _settings(n, phases=None):
    from hypothesis import settings, HealthCheck, Phase
    return settings(max_examples=n, database=None, deadline=None, derandomize=False, report_multiple_bugs=False,
                    suppress_health_check=list(HealthCheck),
                    phases=phases or [Phase.generate])


def run_shard(args):
    pid, tier, seed, n, idx = args
    try:
        import warnings
        warnings.simplefilter("ignore")
        from hypothesis import given, seed as hseed
        mod = find_module(pid)
        strat = mod.strategy(tier)
        res = new_result()
        known = load_findings(pid)

        @hseed(seed)
        @_settings(n)
        @given(strat)
        def test(case):
            record_case(mod, res, case, known)

        test()
        return res
    except BaseException:
        return {"error": f"shard {idx} (seed {seed}):\n" + traceback.format_exc()}


def run_enum(args):
    pid, cases, idx = args
    try:
        import warnings
        warnings.simplefilter("ignore")
        mod = find_module(pid)
        res = new_result()
        known = load_findings(pid)
        for case in cases:
            record_case(mod, res, case, known, max_samples=1)
        return res
    except BaseException:
        return {"error": f"enum chunk {idx}:\n" + traceback.format_exc()}


def run_fuzz(pid, tier, seed, runs_per_proc, instrument=None):
    """Run pbt.fuzz in parallel processes; returns (list of shard results, note for the evidence)."""
    import subprocess
    import tempfile
    try:
        import atheris  # noqa: F401
    except Exception as e:   # not installed: say so, do not fail
        return [], {"engine": "atheris", "status": f"not available ({type(e).__name__}); Hypothesis only"}
    nproc = int(os.environ.get("VERIF_JOBS", "16"))
    tmp = tempfile.mkdtemp(prefix="verif_fuzzout_")
    procs = []
    for i in range(nproc):
        out = os.path.join(tmp, f"{i}.json")
        cmd = [sys.executable, "-W", "ignore", "-m", "pbt.fuzz", pid, "--runs", str(runs_per_proc), "--seed",
               str(seed * 1000 + 500 + i), "--out", out, "--tier", tier]
        if instrument:
            cmd += ["--instrument", instrument]
        procs.append((subprocess.Popen(cmd, stdout=subprocess.DEVNULL, stderr=subprocess.DEVNULL, cwd=HERE), out))
    res, execs = [], 0
    for p, out in procs:
        p.wait()
        if os.path.exists(out):
            with open(out) as fh:
                d = json.load(fh)
            d["hashes"], d["nt_hashes"] = set(d["hashes"]), set(d["nt_hashes"])
            for b in d["viol"].values():
                b["cases"] = [tuple(c) for c in b["cases"]]
            execs += d["evaluations"]
            res.append(d)
    import shutil
    shutil.rmtree(tmp, ignore_errors=True)
    import glob
    for dd in glob.glob(os.path.join(tempfile.gettempdir(), "verif_fuzz_*")):
        shutil.rmtree(dd, ignore_errors=True)
    return res, {"engine": "atheris/libFuzzer via hypothesis fuzz_one_input", "processes": nproc,
                 "runs_per_process": runs_per_proc, "executions_accepted": execs, "status": "ok"}


def pmap(fn, jobs):
    jobs = list(jobs)
    if not jobs:
        return []
    if len(jobs) == 1:
        return [fn(jobs[0])]
    with mp.get_context("fork").Pool(min(int(os.environ.get("VERIF_JOBS", "16")), len(jobs))) as pool:
        return pool.map(fn, jobs, chunksize=1)


# ----------------------------------------------------------------------------------------------------------------
def shrink(mod, tier, bucket, case0, known, budget, seed):
    """Minimise a case showing `bucket` (unexplained). Falls back to the recorded case."""
    from hypothesis import find, Phase
    from hypothesis.errors import NoSuchExample, Unsatisfiable

    def cond(c):
        try:
            _, vs = eval_case(mod, c)
        except Exception:
            return False
        return any(v["bucket"] == bucket and explain(v, c, known) is None for v in vs)

    try:
        c = find(mod.strategy(tier), cond, settings=_settings(budget, phases=[Phase.generate, Phase.shrink]),
                 random=random.Random(seed))
        if len(canon(c)) <= len(canon(case0)):
            return c
    except (NoSuchExample, Unsatisfiable):
        pass
    except Exception:
        pass
    return case0


def write_failure(pid, bucket, case, violation):
    d = os.path.join(os.environ.get("VERIF_FAILURES_DIR") or os.path.join(HERE, "failures"), pid)
    os.makedirs(d, exist_ok=True)
    name = hashlib.sha1((bucket + canon(case)).encode()).hexdigest()[:12] + ".json"
    p = os.path.join(d, name)
    with open(p, "w") as fh:
        json.dump({"property": pid, "bucket": bucket, "detail": violation.get("detail", ""), "case": case}, fh,
                  indent=1, default=_json_default)
    return os.path.relpath(p, HERE)


def load_replay(path):
    with open(path) as fh:
        d = json.load(fh)
    return d["case"] if isinstance(d, dict) and "case" in d and "property" in d else d


# ----------------------------------------------------------------------------------------------------------------
def main(argv=None):
    ap = argparse.ArgumentParser()
    ap.add_argument("pid")
    ap.add_argument("--tier", default=os.environ.get("VERIF_TIER") or "quick", choices=["quick", "thorough"])
    ap.add_argument("--replay", default=None)
    ap.add_argument("--examples", type=int, default=None)
    ap.add_argument("--shards", type=int, default=None)
    ap.add_argument("--no-shrink", action="store_true")
    a = ap.parse_args(argv)
    pid = a.pid.upper()
    t0 = time.time()
    try:
        seed = int(os.environ.get("VERIF_SEED", "1") or "1")
    except ValueError:
        seed = 1
    import warnings
    warnings.simplefilter("ignore")
    check_repo_import()
    mod = find_module(pid)
    known = load_findings(pid)

    def report_known(kn):
        for kid, n in sorted(kn.items()):
            rec = [r for r in known if r["id"] == kid][0]
            print(f"KNOWN-FINDING: property={pid} {rec['what']} [{kid}; excluded cases: {n}]")

    # --- single replay ----------------------------------------------------------------------------------------
    if a.replay:
        res = new_result()
        record_case(mod, res, load_replay(a.replay), known)
        report_known(res["known"])
        for b, info in sorted(res["viol"].items()):
            print(f"  bucket {b}: {info['cases'][0][1]['detail'][:600]}")
            print(f"VIOLATION property={pid} replay={a.replay}")
        if not res["viol"]:
            print(f"{pid} replay ok: {a.replay}")
        return 1 if res["viol"] else 0

    budget = mod.budget(a.tier)
    n_examples = a.examples if a.examples is not None else budget["examples"]
    n_shards = a.shards if a.shards is not None else budget.get("shards", 16)
    n_shards = max(1, min(n_shards, max(1, n_examples)))

    # --- 0. committed replays ---------------------------------------------------------------------------------
    replay_res = new_result()
    replay_origin = {}
    rdir = os.path.join(HERE, "replays", pid)
    if os.path.isdir(rdir):
        for fn in sorted(os.listdir(rdir)):
            if fn.endswith(".json"):
                before = set(replay_res["viol"])
                record_case(mod, replay_res, load_replay(os.path.join(rdir, fn)), known, max_samples=0)
                for b in set(replay_res["viol"]) - before:
                    replay_origin[b] = os.path.join("replays", pid, fn)
    n_replayed = replay_res["evaluations"]

    # --- 1. exhaustive enumeration ----------------------------------------------------------------------------
    parts = [replay_res]
    n_enum = 0
    if hasattr(mod, "enumerate_cases"):
        cases = list(mod.enumerate_cases(a.tier))
        n_enum = len(cases)
        nchunk = min(64, max(1, len(cases)))
        parts += pmap(run_enum, [(pid, cases[i::nchunk], i) for i in range(nchunk) if cases[i::nchunk]])

    # --- 2. generation pass -----------------------------------------------------------------------------------
    per = [n_examples // n_shards + (1 if i < n_examples % n_shards else 0) for i in range(n_shards)]
    jobs = [(pid, a.tier, seed * 1000 + i, per[i], i) for i in range(n_shards) if per[i] > 0]
    parts += pmap(run_shard, jobs)
    # --- 2b. coverage-guided engine (atheris) for modules that ask for it (thorough tier) ----------------------
    fuzz_note = None
    fz = getattr(mod, "FUZZ", None)
    if fz and fz.get(a.tier, 0) > 0 and (a.examples is None or os.environ.get("VERIF_FUZZ_RUNS")):
        fparts, fuzz_note = run_fuzz(pid, a.tier, seed, int(os.environ.get("VERIF_FUZZ_RUNS") or fz[a.tier]),
                                     fz.get("instrument"))
        parts += fparts
    tot = merge(parts)

    # --- 3./4. report -----------------------------------------------------------------------------------------
    report_known(tot["known"])
    rc = 0
    for b, info in sorted(tot["viol"].items()):
        case, v = min(info["cases"], key=lambda cv: len(canon(cv[0])))
        if b in replay_origin:
            path = replay_origin[b]
        else:
            if not a.no_shrink:
                sb = budget.get("shrink", 300 if a.tier == "quick" else 2000)
                case2 = shrink(mod, a.tier, b, case, known, sb, seed)
                if case2 is not case:
                    _, vs2 = eval_case(mod, case2)
                    v2 = [x for x in vs2 if x["bucket"] == b]
                    if v2:
                        case, v = case2, v2[0]
            path = write_failure(pid, b, case, v)
        print(f"  bucket {b} (x{info['count']}): {v['detail'][:600]}")
        print(f"VIOLATION property={pid} replay={path}")
        rc = 1

    # --- 5. evidence ------------------------------------------------------------------------------------------
    wall = time.time() - t0
    cov = {
        "evaluations": tot["evaluations"],
        "distinct_nontrivial": len(tot["nt_hashes"]),
        "distinct_cases": len(tot["hashes"]),
        "rule": mod.RULE,
        "samples": tot["samples"][:4],
        "classes": dict(sorted(tot["classes"].items())),
        "replayed_regressions": n_replayed,
        "generated": tot["evaluations"] - n_replayed - n_enum,
        "excluded_known": tot["known"],
        "violating_cases": tot["nviol_cases"],
        "unexplained_buckets": {b: i["count"] for b, i in sorted(tot["viol"].items())},
        "shards": len(jobs),
        "exhaustive": bool(n_enum and getattr(mod, "EXHAUSTIVE_NOTE", None) and getattr(mod, "EXHAUSTIVE", True)),
    }
    if n_enum:
        # enumerate_cases is either an exhaustive sub-domain or (EXHAUSTIVE = False) a fixed list of extra cases
        key = "exhaustive_subspace" if getattr(mod, "EXHAUSTIVE", True) else "fixed_cases"
        cov[key] = getattr(mod, "EXHAUSTIVE_NOTE", "")
        cov["enumerated"] = n_enum
    if fuzz_note is not None:
        cov["coverage_guided"] = fuzz_note
    if hasattr(mod, "extra_evidence"):
        cov.update(mod.extra_evidence(a.tier))
    ev = {
        "property_id": pid, "tier": a.tier, "seed": seed, "level": "exploration", "coverage": cov,
        "assumptions": list(getattr(mod, "ASSUMPTIONS", [])), "wall_s": round(wall, 2),
        "violations": len(tot["viol"]),
    }
    evdir = os.environ.get("VERIF_EVIDENCE_DIR") or os.path.join(HERE, "evidence")   # redirected by mutant runs only
    os.makedirs(evdir, exist_ok=True)
    with open(os.path.join(evdir, f"{pid}.json"), "w") as fh:
        json.dump(ev, fh, indent=1, default=_json_default)
    print(f"{pid} tier={a.tier} seed={seed} evaluations={cov['evaluations']} distinct_nontrivial="
          f"{cov['distinct_nontrivial']} violations={len(tot['viol'])} known={len(tot['known'])} wall={wall:.1f}s")
    return rc


if __name__ == "__main__":
    try:
        rc = main()
    except SystemExit:
        raise
    except BaseException:
        sys.stdout.flush()
        sys.stderr.write("HARNESS ERROR\n" + traceback.format_exc())
        sys.exit(2)
    sys.exit(rc)
