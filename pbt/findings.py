"""Matchers for known_findings.jsonl.  match_<name>(violation, case, params) -> bool.

A matcher recognises *exactly* the recorded defect (component + algebraic shape of the discrepancy, as computed by the
property's check and stored in the violation record); it is never a blanket suppression of a bucket or property."""


def match_bucket_and_sig(violation, case, params):
    """Generic: bucket equal and every key of params['sig'] equal in violation['sig'] (set by the check from the
    algebraic shape of the discrepancy)."""
    if violation.get("bucket") != params.get("bucket"):
        return False
    sig = violation.get("sig", {})
    return all(sig.get(k) == v for k, v in params.get("sig", {}).items())


def match_strain_shear_x2(violation, case, params):
    """C12 known finding: Strain(voigt=True)/Stress return twice the engineering shear.

    Matches only a violation whose bucket is one of params['buckets'] and whose `sig` (computed by the C12 check from the
    numbers, not from the bucket name) says: component is one of params['components'], the normal components agree with
    the independent reference, and every shear component equals params['factor'] (=2) times the expected engineering
    shear within params['rtol'] (for component 'energy': the identity sum x V s.e = u^T K u holds within rtol once the
    doubled shear rows of both Strain and Stress are halved, and both were verified as doubled in the same case).
    Any other discrepancy in Strain/Stress/energy has a different bucket and no such sig, so it stays unexplained."""
    if violation.get("bucket") not in params.get("buckets", []):
        return False
    sig = violation.get("sig")
    if not isinstance(sig, dict):
        return False
    rtol = float(params.get("rtol", 1e-11))
    try:
        return (sig.get("shape") == "shear_x2"
                and sig.get("component") in params.get("components", [])
                and sig.get("factor") == params.get("factor", 2)
                and sig.get("normals_agree") is True
                and float(sig.get("rel_dev_2x")) <= rtol
                and float(sig.get("rel_dev_normals")) <= rtol)
    except (TypeError, ValueError):
        return False


def match_c09_placeholder_leak(violation, case, params):
    """C09 known finding: FilterConv with an explicit kernel wider than 2n+1 on an axis, 'symmetric' on the min side and
    a constant on the max side of that axis.

    Matches only the bucket C09:conv:value:wide_mixed whose `sig` says the C09 check reproduced the output to its
    tolerance with the explicit placeholder-leak model (min-side reflection copies the index-0 placeholders of the
    max-side constant pad, so those positions read x[element 0]), and only if the case really has that configuration on
    every axis named in the sig. Any other wrong value of FilterConv gets another bucket / no sig and stays unexplained."""
    if violation.get("bucket") != "C09:conv:value:wide_mixed":
        return False
    sig = violation.get("sig")
    if not isinstance(sig, dict) or sig.get("shape") != "placeholder_leak":
        return False
    axes = sig.get("axis")
    if not isinstance(axes, list) or not axes or not isinstance(case, dict) or case.get("kind") != "conv_kernel":
        return False
    try:
        nel = case["dom"]["nel"]
        n = [nel[0], nel[1], max(nel[2], 1)]
        half, bc = case["half"], case["bc"]
        for a in axes:
            if not (half[a] > n[a] and bc[2 * a] == "symmetric" and isinstance(bc[2 * a + 1], (int, float))
                    and not isinstance(bc[2 * a + 1], bool)):
                return False
    except (KeyError, IndexError, TypeError):
        return False
    return True
