"""Matchers for known_findings.jsonl.  match_<name>(violation, case, params) -> bool.

A matcher recognises *exactly* the recorded defect (component + algebraic shape of the discrepancy, as computed by the
property's check and stored in the violation record); it is never a blanket suppression of a bucket or property."""


def match_bucket_and_sig(violation, case, params):
    """Generic: bucket equal and every key of params['sig'] equal in violation['sig'] (set by the check from the
    algebraic shape of the discrepancy)."""
    if violation.get("bucket") != params.get("bucket"):
        return False
    sig = violation.get("sig", {})
    return all(sig.get(k) == v for k, v in params.get("sig", {}).items())
