T = "property-based testing (Hypothesis-generated cases, sharded, collect->bucket->shrink)"
add("C01", T + ": adjoint vs exact/Richardson-extrapolated differences along class-preserving directions over generated module recipes",
    "Generated module configurations (every public module family, option combinations, seeds incl. partial/dyadic) are differentiated against exact differences (affine modules, 1e-10) or extrapolated central differences with an error estimate (1e-6). Finds wrong factors/signs/missing terms/raises in any visited configuration; says nothing about configurations not generated.", "DESIGN.md §3 C01")
add("C02", T + ": generated module graphs (programs) vs an independent forward-mode accumulation of exact Jacobians",
    "Random DAG programs with fan-out, repeated inputs, input/output slices, nested networks and seed subsets; the expected source sensitivities come from an independent forward-mode oracle (1e-10), itself cross-checked by differences on a sample.", "DESIGN.md §3 C02")
add("C03", T + ": generated call histories on caching networks vs a freshly constructed identical network (model-based / differential)",
    "Optimisation-loop-like histories over seven network templates with caching components; the final cycle on the used objects must equal a fresh network, reset must clear all sensitivities.", "DESIGN.md §3 C03")
add("C04", T + ": metamorphic relations (linearity in the seed, k-fold accumulation, bit-wise state snapshots) over the C01 module recipes",
    "Metamorphic relations on single modules: linear combination of seeds, repeated sensitivity() calls, bit-identical states around sensitivity()/reset()/response().", "DESIGN.md §3 C04")
add("C05", T + ": generated solver x matrix-class x trans x rhs cases vs the defining equation (normwise backward error)",
    "Each solver on generated matrices of its documented class (bounded condition number, several scales and storages) must satisfy the requested (transposed/adjoint) system to 1e-10 backward error (CG: 20*tol), keep shape/dtype.", "DESIGN.md §3 C05")
add("C06", T + ": generated update/solve histories on LDAWrapper(CountingSolver) vs residual + span reference model; exhaustive sparsity patterns for small n; atheris engine in the thorough tier",
    "Histories of update/solve with N/T/H, real/complex, block and dependent right-hand sides; residual oracle, fresh-wrapper differential for raises, one-directional inner-solve-count model; all off-diagonal patterns enumerated for n=3 (quick) / n=4 (thorough).", "DESIGN.md §3 C06")
add("C07", T + ": generated matrices/partitions/rhs for LinSolve, Inverse, SystemOfEquations, StaticCondensation vs defining equations and dense Schur complement",
    "Three-stage programs per module object (response, repeat, new inputs) judged by backward error of the defining equations and numpy's dense Schur complement; input states must stay bit-identical.", "DESIGN.md §3 C07")
add("C08", T + ": generated domains/materials/bc vs an independent scatter + own Gauss element matrices + physics invariants",
    "Assembled matrices are compared entrywise (1e-11) with an independently derived connectivity/scatter and own element matrices, plus symmetry, PSD, rigid-body null space, mass and Poisson energy identities.", "DESIGN.md §3 C08")
add("C09", T + ": generated kernels/paddings/fields vs direct nested-loop convolution with per-side ideal extension and O(nel^2) cone average",
    "FilterConv/DensityFilter forward values vs naive references (1e-12), kernel checks and invariants; genuinely ambiguous padding readings are accepted as any-of and counted.", "DESIGN.md §3 C09")
add("C11", T + ": generated dense/sparse pencils with prescribed gapped spectra vs residual, bilinear normalisation, ordering and numpy.linalg spectra",
    "Eigenpairs are judged by residual, q^T B q = 1, sorter identity, sign convention, completeness (dense) and closest-to-sigma set (sparse FE pencils).", "DESIGN.md §3 C11")
add("C12", T + ": generated affine displacement fields vs own Voigt strains/D matrices and the assembled stiffness energy; known finding factored out",
    "Strain/Stress/ElementAverage/NodalOperation/ThermoMechanical vs exact affine-field references (1e-11) and energy identity with AssembleStiffness; the test-pinned 2x shear is a recorded known finding whose exact shape is matched, everything else is still reported.", "DESIGN.md §3 C12")
add("C13", T + ": exhaustive grid enumeration + Hypothesis-generated sizes/points vs independent numbering and shape-function reference; atheris engine in the thorough tier",
    "All grid sizes up to a bound are enumerated and every numbering/connectivity table compared with an independently derived one; shape-function identities are checked at generated points. Exhaustive for the stated grid sub-space, sampled for element sizes and points.", "DESIGN.md §3 C13")
add("C14", T + ": generated domains/directions/parameters/fields vs an element-by-element reference of Langelaar's scheme + metamorphic mirror/axis-swap relations",
    "OverhangFilter output vs an independent layer-by-layer reference (1e-12), bounds, string/vector direction equivalence, mirror and axis-swap relations.", "DESIGN.md §3 C14")
add("C10", T + ": generated convex problems as pyMOTO networks; recording wrapper around the MMA subproblem solver; per-iteration invariants + own KKT residual + closed-form optimum",
    "Every iteration of minimize_mma on generated convex problems is observed through a recording wrapper of subsolv and the callback: bounds, move limits, asymptotes, approximation value/gradient reproduction, subproblem KKT residual recomputed by the check, write-back to the right signals, approach to the oracle optimum.", "DESIGN.md §3 C10")
add("C15", T + ": generated straight-line programs over DyadCarrier vs a dense numpy reference model (model-based); atheris coverage-guided engine in the thorough tier",
    "Programs of constructor/operator/slicing/contract operations are executed on DyadCarrier and on dense matrices; after every step values, shapes, dtype class and operand immutability are compared (1e-12).", "DESIGN.md §3 C15")
add("C16", T + ": exhaustive small vectors over a value grid + generated vectors/options/response sequences vs analytic bounds, exact-fraction active-set validity predicate and the damping recurrence; atheris engine in the thorough tier",
    "Aggregation bounds, undamped exactness, damping recurrence and the active-set rule (as a validity predicate admitting ties) on all vectors over a 4-level grid up to n=6 (quick) / 7 (thorough) plus generated cases.", "DESIGN.md §3 C16")
add("C17", T + ": generated OC runs observed by a recording module vs own OC map with exact multiplier (bisection) and water-filling optimum",
    "Every design of minimize_oc runs on generated separable/compliance problems is checked for bounds, move limit, volume (when reachable, to bisection tolerance), write-back and convergence to the analytic optimum.", "DESIGN.md §3 C17")
add("C18", T + ": generated operation histories on Signal/SignalSlice vs a plain-numpy reference model (model-based); atheris engine in the thorough tier",
    "Histories of state/sensitivity assignments, add_sensitivity (incl. shared objects), resets and slicing are replayed against a numpy model after every step, with aliasing checks via shares_memory.", "DESIGN.md §3 C18")
add("C19", T + ": generated modules/networks with known exact Jacobians (correct and deliberately wrong variants) vs the tuples finite_difference reports",
    "finite_difference is run on generated modules with exact Jacobians; every reported (x0, dx, an, fd) tuple, their count/order, detection of wrong variants, state restoration and reset are checked.", "DESIGN.md §3 C19")
add("C20", T + ": round trip — generated domains/arrays/options written by WriteToVTI/ScalarToFile, decoded with xml.etree/base64/struct and compared; atheris engine in the thorough tier",
    "Files written for generated inputs are parsed back independently (XML structure, extents, spacing, base64 float32 payloads, names, sections, file naming; log header/rows) and compared with the inputs.", "DESIGN.md §3 C20")
