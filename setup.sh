#!/bin/bash
# Offline setup: sympy+mpmath (needed by pymoto.MathGeneral) and atheris into /verif/.deps
HERE="$(cd "$(dirname "${BASH_SOURCE[0]}")" && pwd)"
cd "$HERE" || exit 2
set -e
export PIP_NO_INDEX=1
mkdir -p .deps evidence failures
if [ ! -d .deps/sympy ]; then
  /venv/bin/pip install --quiet --no-index --find-links /opt/veriftools/wheels --target .deps sympy mpmath
fi
if [ ! -d .deps/atheris ]; then
  /venv/bin/pip install --quiet --no-index --find-links /opt/veriftools/wheels --target .deps atheris || echo "atheris not installed (optional)" >&2
fi
/venv/bin/python -c "import hypothesis, numpy, scipy" 
echo setup-ok
