#!/venv/bin/python
"""Regenerates MANIFEST.json from the table below (python tools_manifest.py). Validates against the schema if
jsonschema is importable."""
import json, os, sys
HERE = os.path.dirname(os.path.abspath(__file__))
BASE = ("cd /repo && /venv/bin/python -m pytest -ra -q -p no:cacheprovider --timeout=900 "
        "--continue-on-collection-errors")
NOTE = ("Trusted: CPython 3.12, numpy/scipy (numpy.linalg, xml.etree, base64 as independent references), Hypothesis, "
        "and the deliberately naive oracles in pbt/. No-counter-example-found over the generated cases reported in "
        "the evidence; not a proof of absence.")
# id -> (technique, text, design_ref)
CHECKS = {}
NA = {}

def add(pid, technique, text, ref):
    CHECKS[pid] = (technique, text, ref)

exec(open(os.path.join(HERE, "manifest_table.py")).read())

allp = [json.loads(l)["id"] for l in open(os.path.join(HERE, "properties.jsonl")) if l.strip()]
m = {
 "version": 1,
 "setup_cmd": "./setup.sh",
 "hooks": {"guard": "PYMOTO_VERIF", "enable": "none needed: no source hooks; checks import /repo's working tree directly (PYTHONPATH) in a fresh process",
           "baseline_off_cmd": BASE, "source_commits": [], "add_only": True},
 "engines": [{"name": "pbt-harness", "path": "pbt/harness.py", "serves_properties": sorted(CHECKS),
              "kind_free_text": "Hypothesis-driven sharded generation (collect -> bucket -> shrink), exhaustive enumeration of small finite sub-spaces, replay of committed regression inputs"},
             {"name": "pbt-fuzz", "path": "pbt/fuzz.py", "serves_properties": ["C06", "C13", "C15", "C16", "C18", "C20"],
              "kind_free_text": "coverage-guided fuzzing (atheris/libFuzzer) of the same Hypothesis strategy and check_case via fuzz_one_input; thorough tier only, 16 processes"}],
 "checks": [],
 "not_applicable": [{"property_id": p, "reason": NA.get(p, "check not built yet (work in progress); see DESIGN.md for the planned property-based check")} for p in allp if p not in CHECKS],
 "notes": "All checks: ./check <ID> [--tier quick|thorough] [--replay FILE]; VERIF_SEED and VERIF_TIER honoured; exit 2 = harness error (never a VIOLATION).",
}
for p in allp:
    if p in CHECKS:
        tech, text, ref = CHECKS[p]
        m["checks"].append({"property_id": p, "quick_cmd": f"./check {p} --tier quick", "thorough_cmd": f"./check {p} --tier thorough",
            "evidence_file": f"evidence/{p}.json", "replay_cmd_template": f"./check {p} --replay {{path}}", "engine": "pbt-harness",
            "level_claimed": {"category": "exploration", "text": text, "design_ref": ref}, "level_note": NOTE, "technique": tech})
json.dump(m, open(os.path.join(HERE, "MANIFEST.json"), "w"), indent=1)
try:
    import jsonschema
    jsonschema.validate(m, json.load(open("/root/.vp/MANIFEST.schema.json")))
    print("MANIFEST valid;", len(m["checks"]), "checks,", len(m["not_applicable"]), "n/a")
except ImportError:
    print("written (jsonschema not available)")
